package main

import (
	"fmt"
	"hash/fnv"
	"math/big"
	"sort"
	"strings"
	"unicode"
	"unicode/utf8"

	"github.com/hashicorp/hcl/v2"
	"github.com/hashicorp/hcl/v2/hclsyntax"
	"github.com/hashicorp/hcl/v2/hclwrite"
	"github.com/zclconf/go-cty/cty"
	"github.com/zclconf/go-cty/cty/convert"

	"verif/vfmt"
)

// failure is one violated clause of the oracle.
type failure struct {
	clause string // parse-error | eval-error | convert-error | value-mismatch | ...
	detail string
}

// showV renders a value for messages and signatures; a long rendering is cut
// to its beginning plus its length and a hash.
func showV(v cty.Value) string {
	s := vfmt.V(v)
	if len(s) <= 400 {
		return s
	}
	h := fnv.New32a()
	h.Write([]byte(s))
	cut := 200
	for cut > 0 && !utf8.RuneStart(s[cut]) {
		cut--
	}
	return fmt.Sprintf("%s...(%d bytes, %08x)", s[:cut], len(s), h.Sum32())
}

func clip(b []byte) string {
	if len(b) > 300 {
		return fmt.Sprintf("%q...(%d bytes)", b[:300], len(b))
	}
	return fmt.Sprintf("%q", b)
}

// readBack applies the value clauses of the property to one parsed
// expression: it must evaluate without errors to a value that converts to the
// original's type and is then equal to the original. unspec=true means the
// only disagreement is one the specification leaves open.
func readBack(v cty.Value, unspecNum bool, expr hcl.Expression, src []byte) (got cty.Value, f *failure, unspec bool) {
	got, diags := expr.Value(nil)
	if diags.HasErrors() {
		return got, &failure{"eval-error", fmt.Sprintf("generated source %s for %s evaluates with errors: %s", clip(src), showV(v), diags.Error())}, false
	}
	if got.IsMarked() || !got.IsWhollyKnown() {
		return got, &failure{"value-mismatch", fmt.Sprintf("generated source %s for %s evaluates to %s (marked or unknown)", clip(src), showV(v), showV(got))}, false
	}
	conv, err := convert.Convert(got, v.Type())
	if err != nil {
		return got, &failure{"convert-error", fmt.Sprintf("generated source %s for %s evaluates to %s, which does not convert to %s: %s", clip(src), showV(v), showV(got), v.Type().FriendlyName(), err)}, false
	}
	if conv.RawEquals(v) {
		return conv, nil, false
	}
	if equalAtPrecision(conv, v) {
		return conv, nil, false
	}
	if unspecNum {
		// the value needs more mantissa bits than the implementation keeps;
		// spec.md allows limited precision (>= 256 bits).
		return conv, nil, true
	}
	return conv, &failure{"value-mismatch", fmt.Sprintf("generated source %s for %s reads back as %s", clip(src), showV(v), showV(conv))}, false
}

// equalAtPrecision is RawEquals except for numbers carried at fewer bits than
// the reader keeps (e.g. built from a Go float64), which are compared at their
// own precision: spec.md "Primitive Types": "Two number values are equal if
// they are numerically equal to the precision associated with the number."
func equalAtPrecision(got, want cty.Value) bool {
	if got.RawEquals(want) {
		return true
	}
	if !got.Type().Equals(want.Type()) || got.IsNull() || want.IsNull() || !got.IsKnown() || !want.IsKnown() {
		return false
	}
	ty := want.Type()
	switch {
	case ty == cty.Number:
		wf, gf := want.AsBigFloat(), got.AsBigFloat()
		if p := wf.Prec(); p > 0 && p < 512 && !gf.IsInf() {
			r := new(big.Float).SetMode(big.ToNearestEven).SetPrec(p).Set(gf)
			return r.Cmp(wf) == 0
		}
		return false
	case ty.IsListType() || ty.IsSetType() || ty.IsTupleType():
		if got.LengthInt() != want.LengthInt() {
			return false
		}
		gi, wi := got.ElementIterator(), want.ElementIterator()
		for gi.Next() && wi.Next() {
			_, g := gi.Element()
			_, w := wi.Element()
			if !equalAtPrecision(g, w) {
				return false
			}
		}
		return true
	case ty.IsMapType() || ty.IsObjectType():
		if got.LengthInt() != want.LengthInt() {
			return false
		}
		gi, wi := got.ElementIterator(), want.ElementIterator()
		for gi.Next() && wi.Next() {
			gk, g := gi.Element()
			wk, w := wi.Element()
			if !gk.RawEquals(wk) || !equalAtPrecision(g, w) {
				return false
			}
		}
		return true
	}
	return false
}

// checkTokens: TokensForValue(v).Bytes() parsed as an expression.
func checkTokens(v cty.Value, unspecNum bool) (sig string, f *failure, unspec bool) {
	toks := hclwrite.TokensForValue(v)
	src := toks.Bytes()
	// generating again (and generating something else in between) must not change what was returned
	_ = hclwrite.TokensForValue(cty.StringVal("zz${"))
	if again := hclwrite.TokensForValue(v).Bytes(); string(again) != string(src) || string(toks.Bytes()) != string(src) {
		return "", &failure{"regenerate-differs", fmt.Sprintf("TokensForValue(%s) gives %s the first time and %s the second time (first result now %s)", showV(v), clip(src), clip(again), clip(toks.Bytes()))}, false
	}
	expr, diags := hclsyntax.ParseExpression(src, "gen.hcl", hcl.InitialPos)
	if diags.HasErrors() {
		return "", &failure{"parse-error", fmt.Sprintf("TokensForValue(%s) = %s does not parse as an expression: %s", showV(v), clip(src), diags.Error())}, false
	}
	got, f, unspec := readBack(v, unspecNum, expr, src)
	if f != nil || unspec {
		return "", f, unspec
	}
	for _, t := range toks {
		if t.Type == hclsyntax.TokenOHeredoc {
			counters.Add("heredoc_generated", 1)
		}
	}
	return showV(got), nil, false
}

// checkAttr: the same value written through Body.SetAttributeValue (new
// attribute, replaced attribute, attribute followed by another one, attribute
// inside a nested block) and read back from File.Bytes() with
// hclsyntax.ParseConfig.
//
// xName is the name of the attribute called x here ("x" itself unless the case
// is about the attribute name: the size dimension of identifier tokens).
func checkAttr(v cty.Value, unspecNum bool, xName string) (f *failure, unspec bool) {
	if xName == "" {
		xName = "x"
	}
	file := hclwrite.NewEmptyFile()
	body := file.Body()
	body.SetAttributeValue(xName, cty.True)
	body.SetAttributeValue(xName, v) // replace
	body.SetAttributeValue("y", v)   // append
	body.SetAttributeValue("z", cty.False)
	blk := body.AppendNewBlock("blk", nil)
	blk.Body().SetAttributeValue(xName, v)
	blk.Body().SetAttributeValue("z", cty.False)
	src := file.Bytes()

	parsed, diags := hclsyntax.ParseConfig(src, "gen.hcl", hcl.InitialPos)
	if diags.HasErrors() {
		return &failure{"attr-parse-error", fmt.Sprintf("file written with SetAttributeValue(%s) = %s does not parse: %s", showV(v), clip(src), diags.Error())}, false
	}
	root, ok := parsed.Body.(*hclsyntax.Body)
	if !ok || len(root.Attributes) != 3 || len(root.Blocks) != 1 || root.Blocks[0].Type != "blk" || len(root.Blocks[0].Labels) != 0 || len(root.Blocks[0].Body.Attributes) != 2 || len(root.Blocks[0].Body.Blocks) != 0 {
		return &failure{"attr-structure", fmt.Sprintf("file written with SetAttributeValue(%s) = %s does not have the structure that was written (3 attributes, 1 block with 2 attributes)", showV(v), clip(src))}, false
	}
	type slot struct {
		name string
		body *hclsyntax.Body
		want cty.Value
		un   bool
	}
	for _, s := range []slot{
		{xName, root, v, unspecNum}, {"y", root, v, unspecNum}, {"z", root, cty.False, false},
		{xName, root.Blocks[0].Body, v, unspecNum}, {"z", root.Blocks[0].Body, cty.False, false},
	} {
		attr := s.body.Attributes[s.name]
		if attr == nil {
			return &failure{"attr-structure", fmt.Sprintf("file written with SetAttributeValue(%s) = %s lacks attribute %s", showV(v), clip(src), abbrev(s.name))}, false
		}
		_, f, u := readBack(s.want, s.un, attr.Expr, src)
		if f != nil {
			f.clause = "attr-" + f.clause
			return f, false
		}
		unspec = unspec || u
	}
	return nil, unspec
}

// ---- classification ---------------------------------------------------

var keywords = map[string]bool{"for": true, "if": true, "in": true, "else": true, "endif": true, "endfor": true, "null": true, "true": true, "false": true}

// stringFeatures names the escape-relevant features of a string (in a fixed
// order), used to build narrow class names.
func stringFeatures(s string) string {
	if s == "" {
		return "empty"
	}
	var fs []string
	add := func(f string) {
		for _, x := range fs {
			if x == f {
				return
			}
		}
		fs = append(fs, f)
	}
	rs := []rune(s)
	skip := 0
	for i, r := range rs {
		if skip > 0 {
			skip--
			continue
		}
		switch {
		case r == '$' || r == '%':
			// a run of k identical introducer characters, possibly followed by "{"
			k := 1
			for i+k < len(rs) && rs[i+k] == r {
				k++
			}
			switch {
			case i+k < len(rs) && rs[i+k] == '{' && k == 1:
				add("introducer")
				skip = 1
			case i+k < len(rs) && rs[i+k] == '{':
				add("dollar-run-before-introducer")
				skip = k
			case i+k == len(rs):
				add("trailing-dollar-percent")
				skip = k - 1
			default:
				add("dollar-percent")
				skip = k - 1
			}
		case r == '"':
			add("quote")
		case r == '\\':
			add("backslash")
		case r == '\n' || r == '\r' || r == '\t':
			add("newline-tab")
		case r == '{' || r == '}' || r == '~':
			add("brace-tilde")
		case r > 0xffff:
			if unicode.IsPrint(r) {
				add("astral")
			} else {
				add("astral-nonprint")
			}
		case !unicode.IsPrint(r) && r != ' ':
			add("nonprint")
		case unicode.Is(unicode.Mn, r):
			add("combining")
		case r > 0x7f:
			add("nonascii")
		case r == ' ':
			add("space")
		default:
			add("plain")
		}
	}
	sort.Strings(fs)
	return strings.Join(fs, "+")
}

func numberShape(v cty.Value) string {
	f := v.AsBigFloat()
	var ps []string
	if f.Signbit() {
		ps = append(ps, "negative")
	}
	switch {
	case f.IsInf():
		ps = append(ps, "infinite")
	case f.IsInt():
		ps = append(ps, "integer")
	default:
		ps = append(ps, "fraction")
	}
	if e := f.MantExp(nil); e > 64 || e < -64 {
		ps = append(ps, "large-exponent")
	}
	if f.Prec() > 512 {
		ps = append(ps, "over-512-bits")
	}
	return strings.Join(ps, "-")
}

func keyClass(k string) string {
	switch {
	case strings.HasPrefix(k, "\ufeff"):
		// hclsyntax.ValidIdentifier strips a leading byte-order mark before
		// scanning, so such keys are judged by what follows the mark
		return "key-bom-prefix"
	case k == "for":
		return "key-for"
	case keywords[k]:
		return "key-keyword-" + k
	case hclsyntax.ValidIdentifier(k):
		return "key-identifier"
	default:
		return "key-quoted"
	}
}

// firstKey returns the key that the generator emits first for a map/object
// (cty iterates both in lexicographic key order).
func firstKey(v cty.Value) (string, bool) {
	for it := v.ElementIterator(); it.Next(); {
		k, _ := it.Element()
		return k.AsString(), true
	}
	return "", false
}

// ---- size of a failing construct ---------------------------------------

// overPow2 names the power-of-two bucket of a size: the largest 2^k < n.
func overPow2(n int) int {
	p := 1
	for p*2 < n {
		p *= 2
	}
	return p
}

// maxTokenLen is the length in bytes of the longest single token the
// generator emits for v (0 if it cannot be generated).
func maxTokenLen(v cty.Value) (m int) {
	defer func() {
		if r := recover(); r != nil {
			m = 0
		}
	}()
	for _, t := range hclwrite.TokensForValue(v) {
		if len(t.Bytes) > m {
			m = len(t.Bytes)
		}
	}
	return m
}

// tokenSizeSuffix is the part of a class name that says the smallest failing
// construct is one long token: ".token-over-<2^k>-bytes" when that token is
// longer than 32 bytes (so the classes of everything short stay as they are).
func tokenSizeSuffix(n int) string {
	if n <= 32 {
		return ""
	}
	return fmt.Sprintf(".token-over-%d-bytes", overPow2(n))
}

func stringSizeSuffix(s string) string {
	n := maxTokenLen(cty.StringVal(s))
	if n < len(s) {
		n = len(s)
	}
	return tokenSizeSuffix(n)
}

// nestingDepth: 0 for a primitive or null, 1 + the deepest member otherwise.
func nestingDepth(v cty.Value) int {
	ty := v.Type()
	if v.IsNull() || !v.IsKnown() || ty.IsPrimitiveType() || ty == cty.DynamicPseudoType {
		return 0
	}
	d := 0
	for it := v.ElementIterator(); it.Next(); {
		_, ev := it.Element()
		if e := nestingDepth(ev); e > d {
			d = e
		}
	}
	return d + 1
}

// depthSuffix is the part of a class name that says the smallest failing
// construct is a deeply nested one: ".nesting-depth-over-<2^k>" from depth 5.
func depthSuffix(v cty.Value) string {
	d := nestingDepth(v)
	if d <= 4 {
		return ""
	}
	return fmt.Sprintf(".nesting-depth-over-%d", overPow2(d))
}

// smallestFailingSize returns the smallest size of the size dimension below
// cur (and above 4) at which fails() holds, or cur when there is none.
func smallestFailingSize(cur int, fails func(n int) bool) int {
	for _, n := range sizeLens(20) {
		if n >= cur {
			break
		}
		if n > 4 && fails(n) {
			return n
		}
	}
	return cur
}

// smallestFailingIdent: the shortest prefix of a long identifier (at the
// lengths of the size dimension) for which fails() holds, else the name.
func smallestFailingIdent(name string, fails func(sub string) bool) string {
	rs := []rune(name)
	if len(name) <= 32 {
		return name
	}
	n := smallestFailingSize(len(rs), func(n int) bool {
		sub := string(rs[:n])
		return hclsyntax.ValidIdentifier(sub) && fails(sub)
	})
	return string(rs[:n])
}

// sameFormNumber: the power of ten of the same sign and direction as v whose
// source text is n bytes long (see lookupNumber).
func sameFormNumber(v cty.Value, n int) (cty.Value, bool) {
	f := v.AsBigFloat()
	var name string
	switch {
	case !f.IsInt():
		if n < 3 {
			return cty.NilVal, false
		}
		name = fmt.Sprintf("1e-%d", n-2)
	case f.Signbit():
		name = fmt.Sprintf("-1e%d", n-2)
	default:
		name = fmt.Sprintf("1e%d", n-1)
	}
	ns, ok := lookupNumber(name)
	if !ok {
		return cty.NilVal, false
	}
	return ns.mk(), true
}

// numberSizeSuffix: for a number whose token is long, the size bucket of the
// shortest number of the same form that fails too.
func numberSizeSuffix(v cty.Value, fails func(cty.Value) bool) string {
	m := maxTokenLen(v)
	if m <= 32 {
		return ""
	}
	n := smallestFailingSize(m, func(n int) bool {
		w, ok := sameFormNumber(v, n)
		return ok && fails(w)
	})
	if w, ok := sameFormNumber(v, n); ok && n < m {
		return tokenSizeSuffix(maxTokenLen(w))
	}
	return tokenSizeSuffix(maxTokenLen(v))
}

// smallestFailingSub returns the smallest part of s for which fails() holds,
// or s itself (ok=false) when no proper part fails: every substring, shortest
// first, for a string of at most 8 runes; for a longer string every distinct
// substring of at most 4 runes (the look-ahead of the escaper is 3 runes) and
// then the prefixes at the lengths of the size dimension, shortest first.
func smallestFailingSub(s string, fails func(sub string) bool) (string, bool) {
	rs := []rune(s)
	seen := map[string]bool{}
	maxL := len(rs) - 1
	if len(rs) > 8 {
		maxL = 4
	}
	for l := 1; l <= maxL; l++ {
		for i := 0; i+l <= len(rs); i++ {
			sub := string(rs[i : i+l])
			if seen[sub] {
				continue
			}
			seen[sub] = true
			if fails(sub) {
				return sub, true
			}
		}
	}
	if len(rs) > 8 {
		for _, n := range sizeLens(20) {
			if n >= len(rs) {
				break
			}
			if n <= 4 {
				continue
			}
			if sub := string(rs[:n]); fails(sub) {
				return sub, true
			}
		}
	}
	return s, false
}

// longKeySuffix: when a map/object fails although every key and value passes
// on its own and its longest key is a long token, the size bucket of the
// shortest prefix of that key with which the value still fails.
func longKeySuffix(chk checker, v cty.Value) string {
	long := ""
	for it := v.ElementIterator(); it.Next(); {
		k, _ := it.Element()
		if ks := k.AsString(); len(ks) > len(long) {
			long = ks
		}
	}
	if len(long) <= 32 {
		return ""
	}
	rebuild := func(newKey string) (cty.Value, bool) {
		m := map[string]cty.Value{}
		for it := v.ElementIterator(); it.Next(); {
			k, ev := it.Element()
			ks := k.AsString()
			if ks == long {
				ks = newKey
			}
			if _, dup := m[ks]; dup {
				return cty.NilVal, false
			}
			m[ks] = ev
		}
		if v.Type().IsMapType() {
			return cty.MapVal(m), true
		}
		return cty.ObjectVal(m), true
	}
	rs := []rune(long)
	n := smallestFailingSize(len(rs), func(n int) bool {
		w, ok := rebuild(string(rs[:n]))
		return ok && tryCheck(chk, w) != nil
	})
	return ".long-key" + stringSizeSuffix(string(rs[:n]))
}

// checker is one of the two value paths reduced to "which clause failed".
type checker func(v cty.Value) *failure

func tokensChecker(v cty.Value) *failure { _, f, _ := checkTokens(v, false); return f }
func attrChecker(v cty.Value) *failure   { f, _ := checkAttr(v, false, ""); return f }

func tryCheck(chk checker, v cty.Value) (f *failure) {
	defer func() {
		if r := recover(); r != nil {
			f = &failure{clause: "panic", detail: fmt.Sprint(r)}
		}
	}()
	return chk(v)
}

// classify names the failure after the smallest construct inside v that
// fails on its own (with whatever clause it fails with there), so that one
// defect gets one class however it is nested or combined: the result is
// "<clause>.<construct>" of that smallest failing sub-case.
func classify(chk checker, v cty.Value, f *failure) string {
	ty := v.Type()
	switch {
	case v.IsNull():
		return f.clause + ".null-" + tyShort(ty)
	case ty == cty.String:
		clause := f.clause
		sub, _ := smallestFailingSub(v.AsString(), func(sub string) bool {
			f2 := tryCheck(chk, cty.StringVal(sub))
			if f2 != nil {
				clause = f2.clause
			}
			return f2 != nil
		})
		return clause + ".string." + stringFeatures(sub) + stringSizeSuffix(sub)
	case ty == cty.Number:
		return f.clause + ".number." + numberShape(v) + numberSizeSuffix(v, func(w cty.Value) bool { return tryCheck(chk, w) != nil })
	case ty == cty.Bool:
		return f.clause + ".bool"
	}
	isObj := ty.IsMapType() || ty.IsObjectType()
	// a sub-value that fails alone
	for it := v.ElementIterator(); it.Next(); {
		k, ev := it.Element()
		if f2 := tryCheck(chk, ev); f2 != nil {
			return classify(chk, ev, f2)
		}
		if isObj {
			if f2 := tryCheck(chk, k); f2 != nil {
				return classify(chk, k, f2)
			}
		}
	}
	cons := "tuplecons"
	if isObj {
		cons = "objectcons"
	}
	kind := cons
	if strings.HasSuffix(f.clause, "convert-error") || strings.HasSuffix(f.clause, "value-mismatch") {
		switch {
		case ty.IsListType():
			kind = "list"
		case ty.IsSetType():
			kind = "set"
		case ty.IsTupleType():
			kind = "tuple"
		case ty.IsMapType():
			kind = "map"
		case ty.IsObjectType():
			kind = "object"
		}
	}
	if v.LengthInt() == 0 {
		return f.clause + "." + kind + ".empty"
	}
	// (every member passes on its own: if the value is deeply nested, that is
	// part of what makes it the smallest failing construct)
	deep := depthSuffix(v)
	if isObj {
		deep += longKeySuffix(chk, v)
	}
	if deep == "" {
		// ... or that one of its members is a long token
		if m := maxTokenLen(v); m > 32 {
			deep = ".long-member" + tokenSizeSuffix(m)
		}
	}
	if !isObj {
		return f.clause + "." + kind + deep
	}
	// a single entry that fails alone
	if v.LengthInt() > 1 {
		for it := v.ElementIterator(); it.Next(); {
			k, ev := it.Element()
			var one cty.Value
			if ty.IsMapType() {
				one = cty.MapVal(map[string]cty.Value{k.AsString(): ev})
			} else {
				one = cty.ObjectVal(map[string]cty.Value{k.AsString(): ev})
			}
			if f2 := tryCheck(chk, one); f2 != nil {
				return classify(chk, one, f2)
			}
		}
	}
	fk, _ := firstKey(v)
	if v.LengthInt() == 1 || fk == "for" {
		return f.clause + "." + kind + ".first-" + keyClass(fk) + deep
	}
	return f.clause + "." + kind + ".multi-key.first-" + keyClass(fk) + deep
}
