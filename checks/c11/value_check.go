package main

import (
	"fmt"
	"math/big"
	"sort"
	"strings"
	"unicode"

	"github.com/hashicorp/hcl/v2"
	"github.com/hashicorp/hcl/v2/hclsyntax"
	"github.com/hashicorp/hcl/v2/hclwrite"
	"github.com/zclconf/go-cty/cty"
	"github.com/zclconf/go-cty/cty/convert"

	"verif/vfmt"
)

// failure is one violated clause of the oracle.
type failure struct {
	clause string // parse-error | eval-error | convert-error | value-mismatch | ...
	detail string
}

func clip(b []byte) string {
	if len(b) > 300 {
		return fmt.Sprintf("%q...(%d bytes)", b[:300], len(b))
	}
	return fmt.Sprintf("%q", b)
}

// readBack applies the value clauses of the property to one parsed
// expression: it must evaluate without errors to a value that converts to the
// original's type and is then equal to the original. unspec=true means the
// only disagreement is one the specification leaves open.
func readBack(v cty.Value, unspecNum bool, expr hcl.Expression, src []byte) (got cty.Value, f *failure, unspec bool) {
	got, diags := expr.Value(nil)
	if diags.HasErrors() {
		return got, &failure{"eval-error", fmt.Sprintf("generated source %s for %s evaluates with errors: %s", clip(src), vfmt.V(v), diags.Error())}, false
	}
	if got.IsMarked() || !got.IsWhollyKnown() {
		return got, &failure{"value-mismatch", fmt.Sprintf("generated source %s for %s evaluates to %s (marked or unknown)", clip(src), vfmt.V(v), vfmt.V(got))}, false
	}
	conv, err := convert.Convert(got, v.Type())
	if err != nil {
		return got, &failure{"convert-error", fmt.Sprintf("generated source %s for %s evaluates to %s, which does not convert to %s: %s", clip(src), vfmt.V(v), vfmt.V(got), v.Type().FriendlyName(), err)}, false
	}
	if conv.RawEquals(v) {
		return conv, nil, false
	}
	if equalAtPrecision(conv, v) {
		return conv, nil, false
	}
	if unspecNum {
		// the value needs more mantissa bits than the implementation keeps;
		// spec.md allows limited precision (>= 256 bits).
		return conv, nil, true
	}
	return conv, &failure{"value-mismatch", fmt.Sprintf("generated source %s for %s reads back as %s", clip(src), vfmt.V(v), vfmt.V(conv))}, false
}

// equalAtPrecision is RawEquals except for numbers carried at fewer bits than
// the reader keeps (e.g. built from a Go float64), which are compared at their
// own precision: spec.md "Primitive Types": "Two number values are equal if
// they are numerically equal to the precision associated with the number."
func equalAtPrecision(got, want cty.Value) bool {
	if got.RawEquals(want) {
		return true
	}
	if !got.Type().Equals(want.Type()) || got.IsNull() || want.IsNull() || !got.IsKnown() || !want.IsKnown() {
		return false
	}
	ty := want.Type()
	switch {
	case ty == cty.Number:
		wf, gf := want.AsBigFloat(), got.AsBigFloat()
		if p := wf.Prec(); p > 0 && p < 512 && !gf.IsInf() {
			r := new(big.Float).SetMode(big.ToNearestEven).SetPrec(p).Set(gf)
			return r.Cmp(wf) == 0
		}
		return false
	case ty.IsListType() || ty.IsSetType() || ty.IsTupleType():
		if got.LengthInt() != want.LengthInt() {
			return false
		}
		gi, wi := got.ElementIterator(), want.ElementIterator()
		for gi.Next() && wi.Next() {
			_, g := gi.Element()
			_, w := wi.Element()
			if !equalAtPrecision(g, w) {
				return false
			}
		}
		return true
	case ty.IsMapType() || ty.IsObjectType():
		if got.LengthInt() != want.LengthInt() {
			return false
		}
		gi, wi := got.ElementIterator(), want.ElementIterator()
		for gi.Next() && wi.Next() {
			gk, g := gi.Element()
			wk, w := wi.Element()
			if !gk.RawEquals(wk) || !equalAtPrecision(g, w) {
				return false
			}
		}
		return true
	}
	return false
}

// checkTokens: TokensForValue(v).Bytes() parsed as an expression.
func checkTokens(v cty.Value, unspecNum bool) (sig string, f *failure, unspec bool) {
	toks := hclwrite.TokensForValue(v)
	src := toks.Bytes()
	// generating again (and generating something else in between) must not change what was returned
	_ = hclwrite.TokensForValue(cty.StringVal("zz${"))
	if again := hclwrite.TokensForValue(v).Bytes(); string(again) != string(src) || string(toks.Bytes()) != string(src) {
		return "", &failure{"regenerate-differs", fmt.Sprintf("TokensForValue(%s) gives %s the first time and %s the second time (first result now %s)", vfmt.V(v), clip(src), clip(again), clip(toks.Bytes()))}, false
	}
	expr, diags := hclsyntax.ParseExpression(src, "gen.hcl", hcl.InitialPos)
	if diags.HasErrors() {
		return "", &failure{"parse-error", fmt.Sprintf("TokensForValue(%s) = %s does not parse as an expression: %s", vfmt.V(v), clip(src), diags.Error())}, false
	}
	got, f, unspec := readBack(v, unspecNum, expr, src)
	if f != nil || unspec {
		return "", f, unspec
	}
	for _, t := range toks {
		if t.Type == hclsyntax.TokenOHeredoc {
			counters.Add("heredoc_generated", 1)
		}
	}
	return vfmt.V(got), nil, false
}

// checkAttr: the same value written through Body.SetAttributeValue (new
// attribute, replaced attribute, attribute followed by another one, attribute
// inside a nested block) and read back from File.Bytes() with
// hclsyntax.ParseConfig.
func checkAttr(v cty.Value, unspecNum bool) (f *failure, unspec bool) {
	file := hclwrite.NewEmptyFile()
	body := file.Body()
	body.SetAttributeValue("x", cty.True)
	body.SetAttributeValue("x", v) // replace
	body.SetAttributeValue("y", v) // append
	body.SetAttributeValue("z", cty.False)
	blk := body.AppendNewBlock("blk", nil)
	blk.Body().SetAttributeValue("x", v)
	blk.Body().SetAttributeValue("z", cty.False)
	src := file.Bytes()

	parsed, diags := hclsyntax.ParseConfig(src, "gen.hcl", hcl.InitialPos)
	if diags.HasErrors() {
		return &failure{"attr-parse-error", fmt.Sprintf("file written with SetAttributeValue(%s) = %s does not parse: %s", vfmt.V(v), clip(src), diags.Error())}, false
	}
	root, ok := parsed.Body.(*hclsyntax.Body)
	if !ok || len(root.Attributes) != 3 || len(root.Blocks) != 1 || root.Blocks[0].Type != "blk" || len(root.Blocks[0].Labels) != 0 || len(root.Blocks[0].Body.Attributes) != 2 || len(root.Blocks[0].Body.Blocks) != 0 {
		return &failure{"attr-structure", fmt.Sprintf("file written with SetAttributeValue(%s) = %s does not have the structure that was written (3 attributes, 1 block with 2 attributes)", vfmt.V(v), clip(src))}, false
	}
	type slot struct {
		name string
		body *hclsyntax.Body
		want cty.Value
		un   bool
	}
	for _, s := range []slot{
		{"x", root, v, unspecNum}, {"y", root, v, unspecNum}, {"z", root, cty.False, false},
		{"x", root.Blocks[0].Body, v, unspecNum}, {"z", root.Blocks[0].Body, cty.False, false},
	} {
		attr := s.body.Attributes[s.name]
		if attr == nil {
			return &failure{"attr-structure", fmt.Sprintf("file written with SetAttributeValue(%s) = %s lacks attribute %q", vfmt.V(v), clip(src), s.name)}, false
		}
		_, f, u := readBack(s.want, s.un, attr.Expr, src)
		if f != nil {
			f.clause = "attr-" + f.clause
			return f, false
		}
		unspec = unspec || u
	}
	return nil, unspec
}

// ---- classification ---------------------------------------------------

var keywords = map[string]bool{"for": true, "if": true, "in": true, "else": true, "endif": true, "endfor": true, "null": true, "true": true, "false": true}

// stringFeatures names the escape-relevant features of a string (in a fixed
// order), used to build narrow class names.
func stringFeatures(s string) string {
	if s == "" {
		return "empty"
	}
	var fs []string
	add := func(f string) {
		for _, x := range fs {
			if x == f {
				return
			}
		}
		fs = append(fs, f)
	}
	rs := []rune(s)
	skip := 0
	for i, r := range rs {
		if skip > 0 {
			skip--
			continue
		}
		switch {
		case r == '$' || r == '%':
			// a run of k identical introducer characters, possibly followed by "{"
			k := 1
			for i+k < len(rs) && rs[i+k] == r {
				k++
			}
			switch {
			case i+k < len(rs) && rs[i+k] == '{' && k == 1:
				add("introducer")
				skip = 1
			case i+k < len(rs) && rs[i+k] == '{':
				add("dollar-run-before-introducer")
				skip = k
			case i+k == len(rs):
				add("trailing-dollar-percent")
				skip = k - 1
			default:
				add("dollar-percent")
				skip = k - 1
			}
		case r == '"':
			add("quote")
		case r == '\\':
			add("backslash")
		case r == '\n' || r == '\r' || r == '\t':
			add("newline-tab")
		case r == '{' || r == '}' || r == '~':
			add("brace-tilde")
		case r > 0xffff:
			if unicode.IsPrint(r) {
				add("astral")
			} else {
				add("astral-nonprint")
			}
		case !unicode.IsPrint(r) && r != ' ':
			add("nonprint")
		case unicode.Is(unicode.Mn, r):
			add("combining")
		case r > 0x7f:
			add("nonascii")
		case r == ' ':
			add("space")
		default:
			add("plain")
		}
	}
	sort.Strings(fs)
	return strings.Join(fs, "+")
}

func numberShape(v cty.Value) string {
	f := v.AsBigFloat()
	var ps []string
	if f.Signbit() {
		ps = append(ps, "negative")
	}
	switch {
	case f.IsInf():
		ps = append(ps, "infinite")
	case f.IsInt():
		ps = append(ps, "integer")
	default:
		ps = append(ps, "fraction")
	}
	if e := f.MantExp(nil); e > 64 || e < -64 {
		ps = append(ps, "large-exponent")
	}
	if f.Prec() > 512 {
		ps = append(ps, "over-512-bits")
	}
	return strings.Join(ps, "-")
}

func keyClass(k string) string {
	switch {
	case strings.HasPrefix(k, "\ufeff"):
		// hclsyntax.ValidIdentifier strips a leading byte-order mark before
		// scanning, so such keys are judged by what follows the mark
		return "key-bom-prefix"
	case k == "for":
		return "key-for"
	case keywords[k]:
		return "key-keyword-" + k
	case hclsyntax.ValidIdentifier(k):
		return "key-identifier"
	default:
		return "key-quoted"
	}
}

// firstKey returns the key that the generator emits first for a map/object
// (cty iterates both in lexicographic key order).
func firstKey(v cty.Value) (string, bool) {
	for it := v.ElementIterator(); it.Next(); {
		k, _ := it.Element()
		return k.AsString(), true
	}
	return "", false
}

// checker is one of the two value paths reduced to "which clause failed".
type checker func(v cty.Value) *failure

func tokensChecker(v cty.Value) *failure { _, f, _ := checkTokens(v, false); return f }
func attrChecker(v cty.Value) *failure   { f, _ := checkAttr(v, false); return f }

func tryCheck(chk checker, v cty.Value) (f *failure) {
	defer func() {
		if r := recover(); r != nil {
			f = &failure{clause: "panic", detail: fmt.Sprint(r)}
		}
	}()
	return chk(v)
}

// classify names the failure after the smallest construct inside v that
// fails on its own (with whatever clause it fails with there), so that one
// defect gets one class however it is nested or combined: the result is
// "<clause>.<construct>" of that smallest failing sub-case.
func classify(chk checker, v cty.Value, f *failure) string {
	ty := v.Type()
	switch {
	case v.IsNull():
		return f.clause + ".null-" + tyShort(ty)
	case ty == cty.String:
		rs := []rune(v.AsString())
		for l := 1; l < len(rs); l++ {
			for i := 0; i+l <= len(rs); i++ {
				sub := string(rs[i : i+l])
				if f2 := tryCheck(chk, cty.StringVal(sub)); f2 != nil {
					return f2.clause + ".string." + stringFeatures(sub)
				}
			}
		}
		return f.clause + ".string." + stringFeatures(v.AsString())
	case ty == cty.Number:
		return f.clause + ".number." + numberShape(v)
	case ty == cty.Bool:
		return f.clause + ".bool"
	}
	isObj := ty.IsMapType() || ty.IsObjectType()
	// a sub-value that fails alone
	for it := v.ElementIterator(); it.Next(); {
		k, ev := it.Element()
		if f2 := tryCheck(chk, ev); f2 != nil {
			return classify(chk, ev, f2)
		}
		if isObj {
			if f2 := tryCheck(chk, k); f2 != nil {
				return classify(chk, k, f2)
			}
		}
	}
	cons := "tuplecons"
	if isObj {
		cons = "objectcons"
	}
	kind := cons
	if strings.HasSuffix(f.clause, "convert-error") || strings.HasSuffix(f.clause, "value-mismatch") {
		switch {
		case ty.IsListType():
			kind = "list"
		case ty.IsSetType():
			kind = "set"
		case ty.IsTupleType():
			kind = "tuple"
		case ty.IsMapType():
			kind = "map"
		case ty.IsObjectType():
			kind = "object"
		}
	}
	if v.LengthInt() == 0 {
		return f.clause + "." + kind + ".empty"
	}
	if !isObj {
		return f.clause + "." + kind
	}
	// a single entry that fails alone
	if v.LengthInt() > 1 {
		for it := v.ElementIterator(); it.Next(); {
			k, ev := it.Element()
			var one cty.Value
			if ty.IsMapType() {
				one = cty.MapVal(map[string]cty.Value{k.AsString(): ev})
			} else {
				one = cty.ObjectVal(map[string]cty.Value{k.AsString(): ev})
			}
			if f2 := tryCheck(chk, one); f2 != nil {
				return classify(chk, one, f2)
			}
		}
	}
	fk, _ := firstKey(v)
	if v.LengthInt() == 1 || fk == "for" {
		return f.clause + "." + kind + ".first-" + keyClass(fk)
	}
	return f.clause + "." + kind + ".multi-key.first-" + keyClass(fk)
}
