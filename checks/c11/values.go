package main

import (
	"encoding/json"
	"fmt"
	"hash/fnv"
	"math"
	"math/big"
	"sort"
	"strconv"
	"strings"

	"github.com/zclconf/go-cty/cty"
)

// VD is the JSON-serialisable description of a cty value (sufficient to
// rebuild it exactly, including number precision and the type of nulls and
// empty collections).
type VD struct {
	K  string          `json:"k"`            // s(tring) n(umber) b(ool) z(null) L(ist) S(et) T(uple) M(ap) O(bject) | sized: sr (repeated string) nest (nested wrappers)
	S  string          `json:"s,omitempty"`  // string content | number name (table below, or 1e<k> / -1e<k> / 1e-<k>) | "true"/"false" | sr: the pattern that is cycled | nest: the wrapper letters that are cycled, innermost first
	N  int             `json:"n,omitempty"`  // sr: length in runes | nest: number of wrapper levels around E[0]
	Ty json.RawMessage `json:"ty,omitempty"` // z: the type of the null; empty L/S/M: the element type
	E  []VD            `json:"e,omitempty"`  // elements (L S T) or values (M O, parallel to Ks)
	Ks []string        `json:"ks,omitempty"` // keys / attribute names (M O)
}

func tyJSON(t cty.Type) json.RawMessage {
	b, err := t.MarshalJSON()
	if err != nil {
		panic(err)
	}
	return b
}

func vs(s string) VD       { return VD{K: "s", S: s} }
func vn(name string) VD    { return VD{K: "n", S: name} }
func vb(b bool) VD         { return VD{K: "b", S: strconv.FormatBool(b)} }
func vnull(t cty.Type) VD  { return VD{K: "z", Ty: tyJSON(t)} }
func vlist(e ...VD) VD     { return VD{K: "L", E: e} }
func vset(e ...VD) VD      { return VD{K: "S", E: e} }
func vtuple(e ...VD) VD    { return VD{K: "T", E: e} }
func vlist0(t cty.Type) VD { return VD{K: "L", Ty: tyJSON(t)} }
func vset0(t cty.Type) VD  { return VD{K: "S", Ty: tyJSON(t)} }
func vmap0(t cty.Type) VD  { return VD{K: "M", Ty: tyJSON(t)} }
func vmap(kv ...any) VD    { return kvd("M", kv) }
func vobj(kv ...any) VD    { return kvd("O", kv) }

// vsr: the first n runes of pat repeated for ever (the size dimension of
// strings: one token whose length is n times a constant).
func vsr(pat string, n int) VD { return VD{K: "sr", S: pat, N: n} }

// vnest: leaf wrapped n times; level i (1 = innermost) uses wrapper letter
// pat[(i-1) mod len(pat)] (the size dimension of containers: nesting depth).
//
//	T [x]   L list [x]   S set [x]   V [x, true]
//	O {k = x}   M map {k = x}   W {a = x, b = true} (x is a non-last attribute at every level)
func vnest(pat string, n int, leaf VD) VD { return VD{K: "nest", S: pat, N: n, E: []VD{leaf}} }

func repString(pat string, n int) string {
	pr := []rune(pat)
	if len(pr) == 0 || n <= 0 {
		return ""
	}
	out := make([]rune, n)
	for i := range out {
		out[i] = pr[i%len(pr)]
	}
	return string(out)
}

func wrapOnce(letter byte, x cty.Value) (cty.Value, error) {
	switch letter {
	case 'T':
		return cty.TupleVal([]cty.Value{x}), nil
	case 'L':
		return cty.ListVal([]cty.Value{x}), nil
	case 'S':
		return cty.SetVal([]cty.Value{x}), nil
	case 'V':
		return cty.TupleVal([]cty.Value{x, cty.True}), nil
	case 'O':
		return cty.ObjectVal(map[string]cty.Value{"k": x}), nil
	case 'M':
		return cty.MapVal(map[string]cty.Value{"k": x}), nil
	case 'W':
		return cty.ObjectVal(map[string]cty.Value{"a": x, "b": cty.True}), nil
	}
	return cty.NilVal, fmt.Errorf("unknown wrapper letter %q", letter)
}

func kvd(k string, kv []any) VD {
	d := VD{K: k}
	for i := 0; i+1 < len(kv); i += 2 {
		d.Ks = append(d.Ks, kv[i].(string))
		d.E = append(d.E, kv[i+1].(VD))
	}
	return d
}

// ---- numbers ----------------------------------------------------------

func dec512(s string) cty.Value {
	f, _, err := big.ParseFloat(s, 10, 512, big.ToNearestEven)
	if err != nil {
		panic(err)
	}
	return cty.NumberVal(f)
}

func intExpr(pow uint, add int64, prec uint) cty.Value {
	n := new(big.Int).Lsh(big.NewInt(1), pow)
	n.Add(n, big.NewInt(add))
	f := new(big.Float).SetPrec(prec).SetInt(n)
	if f.Acc() != big.Exact {
		panic("inexact number construction")
	}
	return cty.NumberVal(f)
}

func neg(v cty.Value) cty.Value {
	return cty.NumberVal(new(big.Float).Neg(v.AsBigFloat()))
}

var frac150 = "0." + strings.Repeat("1234567890", 15)

// numberTable: name -> constructor. Every number here is finite. "unspec"
// marks numbers whose mantissa needs more than the 512 bits the
// implementation keeps (spec.md "Primitive Types" allows limited precision),
// for which an inexact read-back is Unspecified.
type numSpec struct {
	name   string
	mk     func() cty.Value
	unspec bool
}

var numberTable = []numSpec{
	{name: "0", mk: func() cty.Value { return cty.NumberIntVal(0) }},
	{name: "1", mk: func() cty.Value { return cty.NumberIntVal(1) }},
	{name: "-1", mk: func() cty.Value { return cty.NumberIntVal(-1) }},
	{name: "0.5", mk: func() cty.Value { return dec512("0.5") }},
	{name: "-0.5", mk: func() cty.Value { return dec512("-0.5") }},
	{name: "1.5", mk: func() cty.Value { return dec512("1.5") }},
	{name: "0.1", mk: func() cty.Value { return dec512("0.1") }},
	{name: "-0.1", mk: func() cty.Value { return dec512("-0.1") }},
	{name: "1e20", mk: func() cty.Value { return dec512("1e20") }},
	{name: "1e-20", mk: func() cty.Value { return dec512("1e-20") }},
	{name: "2^200+1", mk: func() cty.Value { return intExpr(200, 1, 512) }},
	{name: "-(2^200+1)", mk: func() cty.Value { return neg(intExpr(200, 1, 512)) }},
	{name: "1e400", mk: func() cty.Value { return dec512("1e400") }},
	{name: "-1e400", mk: func() cty.Value { return dec512("-1e400") }},
	{name: "1e-400", mk: func() cty.Value { return dec512("1e-400") }},
	{name: "1e4000", mk: func() cty.Value { return dec512("1e4000") }},
	{name: "1e-4000", mk: func() cty.Value { return dec512("1e-4000") }},
	{name: "frac150", mk: func() cty.Value { return dec512(frac150) }},
	{name: "-frac150", mk: func() cty.Value { return dec512("-" + frac150) }},
	{name: "1/3", mk: func() cty.Value {
		return cty.NumberVal(new(big.Float).SetPrec(512).Quo(big.NewFloat(1).SetPrec(512), big.NewFloat(3).SetPrec(512)))
	}},
	{name: "123456789.000000001", mk: func() cty.Value { return dec512("123456789.000000001") }},
	{name: "int78", mk: func() cty.Value { return dec512("1" + strings.Repeat("234567890", 8) + "12345") }},
	{name: "2^511+1", mk: func() cty.Value { return intExpr(511, 1, 512) }},
	{name: "2^512-1", mk: func() cty.Value { return intExpr(512, -1, 512) }},
	{name: "(2^512-1)*2^1000", mk: func() cty.Value {
		f := intExpr(512, -1, 512).AsBigFloat()
		return cty.NumberVal(new(big.Float).SetPrec(512).SetMantExp(f, 1000))
	}},
	{name: "(2^512-1)*2^-1000", mk: func() cty.Value {
		f := intExpr(512, -1, 512).AsBigFloat()
		return cty.NumberVal(new(big.Float).SetPrec(512).SetMantExp(f, -1000))
	}},
	{name: "maxint64", mk: func() cty.Value { return cty.NumberIntVal(math.MaxInt64) }},
	{name: "minint64", mk: func() cty.Value { return cty.NumberIntVal(math.MinInt64) }},
	{name: "maxuint64", mk: func() cty.Value { return cty.NumberUIntVal(math.MaxUint64) }},
	// numbers carried at less than 512 bits (values built from Go floats):
	// equality is "to the precision associated with the number" (spec.md).
	{name: "f64:0.1", mk: func() cty.Value { return cty.NumberFloatVal(0.1) }},
	{name: "f64:-0.1", mk: func() cty.Value { return cty.NumberFloatVal(-0.1) }},
	{name: "f64:1/3", mk: func() cty.Value { return cty.NumberFloatVal(1.0 / 3.0) }},
	{name: "f64:1e-20", mk: func() cty.Value { return cty.NumberFloatVal(1e-20) }},
	{name: "f64:1e300", mk: func() cty.Value { return cty.NumberFloatVal(1e300) }},
	{name: "f64:max", mk: func() cty.Value { return cty.NumberFloatVal(math.MaxFloat64) }},
	{name: "f64:denorm-min", mk: func() cty.Value { return cty.NumberFloatVal(math.SmallestNonzeroFloat64) }},
	{name: "f64:-0", mk: func() cty.Value { return cty.NumberFloatVal(math.Copysign(0, -1)) }},
	{name: "f32:0.1", mk: func() cty.Value {
		return cty.NumberVal(new(big.Float).SetPrec(24).SetFloat64(float64(float32(0.1))))
	}},
	{name: "prec10:0.1", mk: func() cty.Value { return cty.NumberVal(new(big.Float).SetPrec(10).SetFloat64(0.1)) }},
	// more than 512 bits of mantissa: Unspecified if it does not read back exactly.
	{name: "2^512+1@1024", mk: func() cty.Value { return intExpr(512, 1, 1024) }, unspec: true},
	{name: "2^600+1@1024", mk: func() cty.Value { return intExpr(600, 1, 1024) }, unspec: true},
}

// powerOfTenName is the inverse of lookupNumber for the powers of ten.
func powerOfTenName(v cty.Value) (string, bool) {
	if v.Type() != cty.Number || v.IsNull() || !v.IsKnown() {
		return "", false
	}
	f := v.AsBigFloat()
	if f.Sign() == 0 || f.IsInf() {
		return "", false
	}
	txt := f.Text('e', -1) // d.ddde±xx
	mant, exp, ok := strings.Cut(txt, "e")
	if !ok || (mant != "1" && mant != "-1") {
		return "", false
	}
	k, err := strconv.Atoi(exp)
	if err != nil {
		return "", false
	}
	name := strings.TrimSuffix(mant, "1") + "1e" + strconv.Itoa(k)
	if _, ok := lookupNumber(name); !ok {
		return "", false
	}
	return name, true
}

var numberByName = func() map[string]numSpec {
	m := map[string]numSpec{}
	for _, n := range numberTable {
		m[n.name] = n
	}
	return m
}()

// lookupNumber: the table, plus the powers of ten 1e<k>, -1e<k>, 1e-<k>
// (nearest 512-bit value), whose source text is k+1 digits / a minus sign and
// k+1 digits / "0." and k digits: the size dimension of number tokens.
func lookupNumber(name string) (numSpec, bool) {
	if ns, ok := numberByName[name]; ok {
		return ns, true
	}
	rest := strings.TrimPrefix(name, "-")
	if !strings.HasPrefix(rest, "1e") {
		return numSpec{}, false
	}
	k, err := strconv.Atoi(rest[2:])
	if err != nil || k < -1000000 || k > 1000000 || rest[2:] != strconv.Itoa(k) {
		return numSpec{}, false
	}
	return numSpec{name: name, mk: func() cty.Value { return dec512(name) }}, true
}

// ---- building ---------------------------------------------------------

func (d VD) ty() (cty.Type, error) {
	var t cty.Type
	if len(d.Ty) == 0 {
		return cty.NilType, fmt.Errorf("missing type")
	}
	err := t.UnmarshalJSON(d.Ty)
	return t, err
}

// build reconstructs the value. The second result reports whether the value
// contains a number for which an inexact read-back is Unspecified.
func build(d VD) (v cty.Value, unspecNum bool, err error) {
	defer func() {
		if r := recover(); r != nil {
			err = fmt.Errorf("cannot build %s: %v", compact(d), r)
		}
	}()
	switch d.K {
	case "s":
		return cty.StringVal(d.S), false, nil
	case "n":
		ns, ok := lookupNumber(d.S)
		if !ok {
			return cty.NilVal, false, fmt.Errorf("unknown number %q", d.S)
		}
		return ns.mk(), ns.unspec, nil
	case "sr":
		if d.N < 0 || d.N > 1<<20 || (d.N > 0 && d.S == "") {
			return cty.NilVal, false, fmt.Errorf("bad repeated string")
		}
		return cty.StringVal(repString(d.S, d.N)), false, nil
	case "nest":
		if len(d.E) != 1 || d.S == "" || d.N < 0 || d.N > 1<<12 {
			return cty.NilVal, false, fmt.Errorf("bad nest descriptor")
		}
		cur, u, err := build(d.E[0])
		if err != nil {
			return cty.NilVal, false, err
		}
		for i := 0; i < d.N; i++ {
			if cur, err = wrapOnce(d.S[i%len(d.S)], cur); err != nil {
				return cty.NilVal, false, err
			}
		}
		return cur, u, nil
	case "b":
		return cty.BoolVal(d.S == "true"), false, nil
	case "z":
		t, err := d.ty()
		if err != nil {
			return cty.NilVal, false, err
		}
		return cty.NullVal(t), false, nil
	}
	elems := make([]cty.Value, len(d.E))
	for i, e := range d.E {
		ev, u, err := build(e)
		if err != nil {
			return cty.NilVal, false, err
		}
		unspecNum = unspecNum || u
		elems[i] = ev
	}
	switch d.K {
	case "L", "S":
		if len(elems) == 0 {
			t, err := d.ty()
			if err != nil {
				return cty.NilVal, false, err
			}
			if d.K == "L" {
				return cty.ListValEmpty(t), false, nil
			}
			return cty.SetValEmpty(t), false, nil
		}
		if d.K == "L" {
			return cty.ListVal(elems), unspecNum, nil
		}
		return cty.SetVal(elems), unspecNum, nil
	case "T":
		return cty.TupleVal(elems), unspecNum, nil
	case "M", "O":
		if len(d.Ks) != len(d.E) {
			return cty.NilVal, false, fmt.Errorf("keys/values mismatch")
		}
		if d.K == "M" && len(elems) == 0 {
			t, err := d.ty()
			if err != nil {
				return cty.NilVal, false, err
			}
			return cty.MapValEmpty(t), false, nil
		}
		m := map[string]cty.Value{}
		for i, k := range d.Ks {
			nk := cty.StringVal(k).AsString()
			if _, dup := m[nk]; dup {
				return cty.NilVal, false, fmt.Errorf("duplicate key %q", k)
			}
			m[nk] = elems[i]
		}
		if d.K == "M" {
			return cty.MapVal(m), unspecNum, nil
		}
		return cty.ObjectVal(m), unspecNum, nil
	}
	return cty.NilVal, false, fmt.Errorf("unknown kind %q", d.K)
}

// compact renders a descriptor as a short ASCII identifier.
func compact(d VD) string {
	switch d.K {
	case "s":
		return abbrev(d.S)
	case "n":
		return d.S
	case "b":
		return d.S
	case "sr":
		return fmt.Sprintf("sr(%s*%d)", strconv.QuoteToASCII(d.S), d.N)
	case "nest":
		leaf := "?"
		if len(d.E) == 1 {
			leaf = compact(d.E[0])
		}
		return fmt.Sprintf("nest(%s*%d,%s)", d.S, d.N, leaf)
	case "z":
		t, err := d.ty()
		if err != nil {
			return "null(?)"
		}
		return "null(" + tyShort(t) + ")"
	}
	var parts []string
	for i, e := range d.E {
		if d.K == "M" || d.K == "O" {
			k := ""
			if i < len(d.Ks) {
				k = d.Ks[i]
			}
			parts = append(parts, abbrev(k)+":"+compact(e))
		} else {
			parts = append(parts, compact(e))
		}
	}
	s := d.K
	if len(d.E) == 0 && len(d.Ty) > 0 {
		if t, err := d.ty(); err == nil {
			s += "<" + tyShort(t) + ">"
		}
	}
	return s + "[" + strings.Join(parts, ",") + "]"
}

func tyShort(t cty.Type) string {
	switch {
	case t == cty.String:
		return "str"
	case t == cty.Number:
		return "num"
	case t == cty.Bool:
		return "bool"
	case t == cty.DynamicPseudoType:
		return "dyn"
	case t.IsListType():
		return "list<" + tyShort(t.ElementType()) + ">"
	case t.IsSetType():
		return "set<" + tyShort(t.ElementType()) + ">"
	case t.IsMapType():
		return "map<" + tyShort(t.ElementType()) + ">"
	case t.IsTupleType():
		var p []string
		for _, e := range t.TupleElementTypes() {
			p = append(p, tyShort(e))
		}
		return "tuple<" + strings.Join(p, ",") + ">"
	case t.IsObjectType():
		at := t.AttributeTypes()
		var ks []string
		for k := range at {
			ks = append(ks, k)
		}
		sort.Strings(ks)
		var p []string
		for _, k := range ks {
			p = append(p, strconv.QuoteToASCII(k)+":"+tyShort(at[k]))
		}
		return "obj<" + strings.Join(p, ",") + ">"
	}
	return t.FriendlyName()
}

// abbrev quotes a string for use in a case identifier; a long string is cut
// to its first runes plus its length and a hash (identifiers stay unique and
// stable, and short).
func abbrev(s string) string {
	if len(s) <= 48 {
		return strconv.QuoteToASCII(s)
	}
	rs := []rune(s)
	h := fnv.New32a()
	h.Write([]byte(s))
	return fmt.Sprintf("%s..(%d runes,%08x)", strconv.QuoteToASCII(string(rs[:8])), len(rs), h.Sum32())
}

// sizeLens: the token lengths of the size dimension: every length up to 16 and
// the three lengths around each power of two 2^5 .. 2^maxPow.
func sizeLens(maxPow int) []int {
	var out []int
	for n := 1; n <= 16; n++ {
		out = append(out, n)
	}
	for k := 5; k <= maxPow; k++ {
		out = append(out, 1<<k-1, 1<<k, 1<<k+1)
	}
	return out
}

// shrinkString proposes strictly shorter strings: every single-rune deletion
// for a short string; for a long one its prefixes at the lengths of the size
// dimension (shortest first) and the string without its last rune.
func shrinkString(s string) []string {
	rs := []rune(s)
	var out []string
	seen := map[string]bool{s: true}
	add := func(c string) {
		if !seen[c] {
			seen[c] = true
			out = append(out, c)
		}
	}
	if len(rs) <= 16 {
		for i := range rs {
			add(string(append(append([]rune{}, rs[:i]...), rs[i+1:]...)))
		}
		return out
	}
	for _, n := range sizeLens(20) {
		if n >= len(rs) {
			break
		}
		add(string(rs[:n]))
	}
	add(string(rs[:len(rs)-1]))
	return out
}

// shrinkVD proposes strictly smaller descriptors.
func shrinkVD(d VD) []VD {
	var out []VD
	switch d.K {
	case "s":
		for _, c := range shrinkString(d.S) {
			out = append(out, vs(c))
		}
		if d.S == "" {
			out = append(out, vb(true))
		}
		return out
	case "sr":
		for _, n := range sizeLens(20) {
			if n >= d.N {
				break
			}
			out = append(out, vsr(d.S, n))
		}
		if d.N > 1 {
			out = append(out, vsr(d.S, d.N-1))
		}
		if d.S != "a" {
			out = append(out, vsr("a", d.N))
		}
		return out
	case "nest":
		if len(d.E) != 1 {
			return nil
		}
		for n := 0; n < d.N; n++ {
			out = append(out, vnest(d.S, n, d.E[0]))
		}
		if len(d.S) > 1 {
			out = append(out, vnest(d.S[:1], d.N, d.E[0]), vnest(d.S[1:], d.N, d.E[0]))
		}
		for _, c := range shrinkVD(d.E[0]) {
			out = append(out, vnest(d.S, d.N, c))
		}
		return out
	case "b":
		return nil
	case "n", "z":
		return []VD{vb(true)}
	}
	// each child alone
	out = append(out, d.E...)
	// one child removed
	for i := range d.E {
		if len(d.E) == 1 && (d.K == "L" || d.K == "S" || d.K == "M") {
			cv, _, err := build(d.E[0])
			if err != nil {
				continue
			}
			out = append(out, VD{K: d.K, Ty: tyJSON(cv.Type())})
			continue
		}
		nd := VD{K: d.K}
		nd.E = append(append([]VD{}, d.E[:i]...), d.E[i+1:]...)
		if len(d.Ks) == len(d.E) {
			nd.Ks = append(append([]string{}, d.Ks[:i]...), d.Ks[i+1:]...)
		}
		out = append(out, nd)
	}
	// one child shrunk
	for i := range d.E {
		for _, c := range shrinkVD(d.E[i]) {
			nd := VD{K: d.K, Ks: d.Ks}
			nd.E = append([]VD{}, d.E...)
			nd.E[i] = c
			out = append(out, nd)
		}
	}
	// one key shrunk
	for i := range d.Ks {
		for _, c := range shrinkString(d.Ks[i]) {
			nd := VD{K: d.K, E: d.E}
			nd.Ks = append([]string{}, d.Ks...)
			nd.Ks[i] = c
			out = append(out, nd)
		}
	}
	return out
}
