// C19 — Diagnostics never reveal the content of marked values.
//
// Canary sweep: for every AST of the expression families (and bodies decoded
// with hcldec / expanded with dynblock, body.go) and every variable it refers
// to, the variable's content is replaced by a marked value of the same shape
// whose strings / numbers / keys are high-entropy canaries that occur nowhere
// else. No diagnostic summary/detail and no rendering by the text diagnostic
// writer may contain a canary.
package main

import (
	"bytes"
	"fmt"
	"strings"
	"time"

	"github.com/hashicorp/hcl/v2"
	"github.com/hashicorp/hcl/v2/hclsyntax"
	hcljson "github.com/hashicorp/hcl/v2/json"
	"github.com/zclconf/go-cty/cty"
	"github.com/zclconf/go-cty/cty/function"

	"verif/engine"
	ex "verif/gen/expr"
	"verif/gen/fam"
	"verif/gen/pool"
)

type Data struct {
	Kind   string    `json:"kind"`
	Family string    `json:"family"`
	E      *ex.E     `json:"e,omitempty"`
	Src    string    `json:"src"`
	Body   *BodyCase `json:"body,omitempty"`
}

const (
	canaryStr  = "Zq7CANARYx93Kp"
	canaryStr2 = "Wm4SECONDc81Rt"
	mark       = "SECRET"
)

var canaryNum = cty.NumberIntVal(739142866)
var canaryNum2 = cty.NumberFloatVal(48151.62342)

// needles: every rendering of the canaries a message could contain
var needles = []string{canaryStr, canaryStr2, "739142866", "7.39142866", "48151.6", "4.81516"}

var counters engine.Counter

// canaries builds marked contents for a variable of the given original value:
// same kind of value, with every string/number/key replaced by a canary. Each
// returned value is one placement.
func canaries(orig cty.Value) []cty.Value {
	ty := orig.Type()
	cs, cn := cty.StringVal(canaryStr), canaryNum
	var out []cty.Value
	add := func(v cty.Value) { out = append(out, v.Mark(mark)) }
	switch {
	case ty == cty.String:
		add(cs)
		add(cty.StringVal("739142866")) // numeric string: converted to number by arithmetic / index
	case ty == cty.Number:
		add(cn)
		add(canaryNum2)
	case ty == cty.Bool || ty == cty.DynamicPseudoType:
		add(cs)
		add(cn)
	case ty.IsListType() || ty.IsSetType() || ty.IsTupleType():
		ety := cty.String
		if ty.IsListType() || ty.IsSetType() {
			ety = ty.ElementType()
		}
		var el []cty.Value
		switch {
		case ety == cty.Number:
			el = []cty.Value{cn, canaryNum2}
		case ety == cty.String:
			el = []cty.Value{cs, cty.StringVal(canaryStr2)}
		default:
			el = []cty.Value{cty.ObjectVal(map[string]cty.Value{"a": cn, canaryStr2: cs}), cty.ObjectVal(map[string]cty.Value{"a": canaryNum2, canaryStr2: cs})}
		}
		switch {
		case ty.IsListType():
			add(cty.ListVal(el))
		case ty.IsSetType():
			add(cty.SetVal(el))
		default:
			add(cty.TupleVal([]cty.Value{cn, cs, cty.True}))
		}
		// element-level marks only
		if ty.IsListType() {
			out = append(out, cty.ListVal([]cty.Value{el[0].Mark(mark), el[1].Mark(mark)}))
		}
		if ty.IsTupleType() {
			// a tuple marked as a whole whose elements are objects with canary attribute names
			add(cty.TupleVal([]cty.Value{
				cty.ObjectVal(map[string]cty.Value{canaryStr: cty.StringVal("x"), "a": cty.True}),
				cty.ObjectVal(map[string]cty.Value{canaryStr2: cty.TupleVal([]cty.Value{cty.True})}),
			}))
			out = append(out, cty.TupleVal([]cty.Value{cn.Mark(mark), cs.Mark(mark), cty.True}))
			// unmarked container of marked objects that share a canary attribute name with different types
			out = append(out, cty.TupleVal([]cty.Value{
				cty.ObjectVal(map[string]cty.Value{canaryStr: cty.StringVal("x")}).Mark(mark),
				cty.ObjectVal(map[string]cty.Value{canaryStr: cty.TupleVal([]cty.Value{cty.StringVal("x")})}).Mark(mark),
				cty.ObjectVal(map[string]cty.Value{canaryStr2: cty.True, "q": cty.Zero}).Mark(mark),
			}))
		}
	case ty.IsMapType():
		add(cty.MapVal(map[string]cty.Value{canaryStr: cty.StringVal(canaryStr2)}))
		if ty.ElementType() == cty.Number {
			add(cty.MapVal(map[string]cty.Value{canaryStr: cn, "a": canaryNum2}))
			out = append(out, cty.MapVal(map[string]cty.Value{"a": cn.Mark(mark), "b": canaryNum2.Mark(mark)}))
		} else {
			add(cty.MapVal(map[string]cty.Value{canaryStr: cs, "a": cty.StringVal(canaryStr2)}))
		}
	case ty.IsObjectType():
		add(cty.ObjectVal(map[string]cty.Value{canaryStr: cn, "a": cn, "b": cs, "0": cs, "c": cty.TupleVal([]cty.Value{cn, canaryNum2}),
			"l": cty.TupleVal([]cty.Value{cty.ObjectVal(map[string]cty.Value{"a": cn})})}))
		out = append(out, cty.ObjectVal(map[string]cty.Value{"a": cn.Mark(mark), "b": cs.Mark(mark), "0": cs.Mark(mark), "c": cty.TupleVal([]cty.Value{cn.Mark(mark)})}))
		// objects with exactly one / two attributes whose names are canaries
		add(cty.ObjectVal(map[string]cty.Value{canaryStr: cn}))
		add(cty.ObjectVal(map[string]cty.Value{canaryStr: cs, canaryStr2: cn}))
		// unmarked object holding marked objects that share a canary attribute name with different types
		out = append(out, cty.ObjectVal(map[string]cty.Value{
			"a": cty.ObjectVal(map[string]cty.Value{canaryStr: cty.StringVal("x")}).Mark(mark),
			"b": cty.ObjectVal(map[string]cty.Value{canaryStr: cty.TupleVal([]cty.Value{cty.StringVal("x")})}).Mark(mark),
			"c": cty.TupleVal([]cty.Value{cn.Mark(mark)}),
		}))
	}
	return out
}

func scan(what string, text string) string {
	for _, n := range needles {
		if strings.Contains(text, n) {
			return fmt.Sprintf("%s contains the canary %q: %q", what, n, text)
		}
	}
	return ""
}

// checkDiags scans the diagnostics and their text renderings.
func checkDiags(diags hcl.Diagnostics, files map[string]*hcl.File) string {
	for _, d := range diags {
		if s := scan("summary", d.Summary); s != "" {
			return s
		}
		if s := scan("detail", d.Detail); s != "" {
			return s
		}
	}
	if len(diags) == 0 {
		return ""
	}
	for _, width := range []uint{0, 78} {
		for _, color := range []bool{false, true} {
			var buf bytes.Buffer
			w := hcl.NewDiagnosticTextWriter(&buf, files, width, color)
			if err := w.WriteDiagnostics(diags); err != nil {
				continue
			}
			if s := scan(fmt.Sprintf("text rendering (width %d, color %v)", width, color), buf.String()); s != "" {
				return s
			}
		}
	}
	return ""
}

func gen(tier string, emit func(engine.Case) bool) {
	ok := true
	for i, e := range erroneous() {
		if !emit(engine.Case{ID: fmt.Sprintf("err/%d", i), Data: Data{Kind: "expr", Family: "erroneous", E: e, Src: ex.Canon(e)}}) {
			return
		}
	}
	for i, j := range jsonForms() {
		if !emit(engine.Case{ID: fmt.Sprintf("json/%d", i), Data: Data{Kind: "json", Family: "json", Src: j}}) {
			return
		}
	}
	fam.All(fam.Opts{Thorough: tier == "thorough"}, func(family, id string, e *ex.E) bool {
		if len(pool.FreeVars(e)) == 0 {
			return true
		}
		ok = emit(engine.Case{ID: id, Data: Data{Kind: "expr", Family: family, E: e, Src: ex.Canon(e)}})
		return ok
	})
	if !ok {
		return
	}
	genBodies(tier, emit)
}

// funcs: the pool's functions plus functions whose parameter types force a per-element conversion of
// a collection / structural argument (with and without AllowMarked).
var extraFuncs = func() map[string]function.Function {
	m := pool.ImplFuncs()
	mk := func(name string, ty cty.Type, allowMarked bool) {
		m[name] = function.New(&function.Spec{
			Params: []function.Parameter{{Name: "x", Type: ty, AllowMarked: allowMarked}},
			Type:   function.StaticReturnType(cty.Number),
			Impl:   func(args []cty.Value, _ cty.Type) (cty.Value, error) { return cty.Zero, nil },
		})
		// the variadic form of the same
		m["v"+name] = function.New(&function.Spec{
			VarParam: &function.Parameter{Name: "xs", Type: ty, AllowMarked: allowMarked},
			Type:     function.StaticReturnType(cty.Number),
			Impl:     func(args []cty.Value, _ cty.Type) (cty.Value, error) { return cty.Zero, nil },
		})
	}
	for _, am := range []bool{false, true} {
		sfx := ""
		if am {
			sfx = "m"
		}
		mk("mapn"+sfx, cty.Map(cty.Number), am)
		mk("listn"+sfx, cty.List(cty.Number), am)
		mk("setb"+sfx, cty.Set(cty.Bool), am)
		mk("objn"+sfx, cty.Object(map[string]cty.Type{"a": cty.Number, "b": cty.Number}), am)
		mk("mapmapn"+sfx, cty.Map(cty.Map(cty.Number)), am)
		mk("listobj"+sfx, cty.List(cty.Object(map[string]cty.Type{"a": cty.Bool})), am)
		mk("listmaps"+sfx, cty.List(cty.Map(cty.String)), am)
	}
	return m
}()

func funcs() map[string]function.Function { return extraFuncs }

// nearly: the name with its last character changed / one character dropped / one added: names
// "close to" a canary attribute name or key, for the sites that suggest similar names.
func nearly(name string) []string {
	// (none of them contains the canary itself: the source text is quoted in the text rendering)
	return []string{name[:len(name)-1] + "Q", name[:len(name)-1], name[:5] + "_" + name[5:], strings.ToLower(name[:1]) + name[1:]}
}

// erroneous: forms chosen to reach the diagnostic sites that format values.
func erroneous() []*ex.E {
	v, k := ex.Var("v"), ex.Var("k")
	var out []*ex.E
	for _, c := range []string{"ls", "ln", "mn", "ss", "sn", "t", "o", "lo", "oo", "sa", "one"} {
		cv := ex.Var(c)
		out = append(out,
			ex.ForO("k", "v", cv, ex.Str("x"), v, nil, false),     // duplicate key "x"
			ex.ForO("k", "v", ex.Tuple(cv, cv), v, k, nil, false), // key from the marked value, duplicated
			ex.ForO("", "v", ex.Tuple(cv, cv), v, v, nil, false),
			ex.ForO("k", "v", cv, v, k, nil, false),
			ex.ForO("k", "v", cv, k, v, nil, false),
			ex.Obj(ex.ExItem(cv, ex.Num("1")), ex.ExItem(cv, ex.Num("2"))), // duplicate constructor key
			ex.Idx(ex.Var("mn"), cv), ex.Idx(ex.Var("ln"), cv), ex.Idx(ex.Var("o"), cv), ex.Idx(ex.Var("t"), cv),
			ex.Idx(cv, ex.Str("nope")), ex.Idx(cv, ex.Num("99")), ex.Attr(cv, "nope"), ex.LIdx(cv, "99"),
			ex.Cond(ex.Var("bt"), cv, ex.Tuple(ex.Num("1"))), ex.Cond(ex.Var("bt"), cv, ex.Obj(ex.IdItem("zz", ex.Num("1")))),
			ex.Cond(cv, ex.Num("1"), ex.Num("2")),
			ex.Bin("+", cv, ex.Num("1")), ex.Bin("&&", cv, ex.Kw("true")), ex.Bin("<", cv, ex.Str("x")), ex.Un("-", cv), ex.Un("!", cv),
			ex.Call("add", cv, cv), ex.Call("cnt", cv), ex.Call("nosuch", cv), ex.CallX("add", cv), ex.CallX("cat", cv), ex.Call("ns::inc", cv),
			ex.Tmpl("q", ex.Lit("x"), ex.Interp(cv)), ex.Tmpl("q", ex.Part{K: "if", E: cv, Then: []ex.Part{ex.Lit("T")}, Strip: [][2]bool{{}, {}, {}}}),
			ex.Tmpl("q", ex.Part{K: "for", E: cv, ValVar: "v", Then: []ex.Part{ex.Interp(v)}, Strip: [][2]bool{{}, {}}}),
			ex.Splat(cv, true, ex.SAttr("nope")), ex.Splat(cv, false, ex.SAttr("a"), ex.SIdx(ex.Num("99"))),
			ex.ForT("", "v", cv, ex.Bin("+", v, ex.Num("1")), nil), ex.ForT("", "v", cv, v, v),
			ex.Obj(ex.ExItem(cv, ex.Num("1"))), ex.Obj(ex.ExItem(ex.Tuple(cv), ex.Num("1"))),
			ex.Bin("==", ex.Idx(cv, cv), ex.Num("1")),
			// mismatching conditional arms built from parts of the marked value
			ex.Cond(ex.Var("bt"), ex.Idx(cv, ex.Num("0")), ex.Idx(cv, ex.Num("1"))),
			ex.Cond(ex.Var("bt"), ex.Tuple(ex.Num("1"), ex.Idx(cv, ex.Num("0"))), ex.Tuple(ex.Num("1"), ex.Idx(cv, ex.Num("1")))),
			ex.Cond(ex.Var("bt"), ex.Obj(ex.IdItem("x", ex.Idx(cv, ex.Num("0")))), ex.Obj(ex.IdItem("x", ex.Idx(cv, ex.Num("1"))))),
			ex.Cond(ex.Var("bt"), ex.Attr(cv, "a"), ex.Attr(cv, "b")),
			ex.Cond(ex.Var("bt"), ex.Tuple(ex.Attr(cv, "a")), ex.Tuple(ex.Attr(cv, "b"))),
			ex.Cond(ex.Var("bt"), ex.Obj(ex.IdItem("x", ex.Attr(cv, "a"))), ex.Obj(ex.IdItem("x", ex.Attr(cv, "b")))),
			ex.Cond(ex.Var("bt"), cv, ex.Tuple(cv)),
			ex.Cond(ex.Var("bt"), ex.Tuple(cv), ex.Tuple(ex.Tuple(cv))),
			ex.ForO("", "v", ex.Tuple(ex.Idx(cv, ex.Num("0")), ex.Idx(cv, ex.Num("0"))), v, v, nil, false),
			ex.Attr(ex.Idx(cv, ex.Num("0")), "nope"), ex.Attr(ex.Attr(cv, "a"), "nope"),
			ex.Bin("+", ex.Idx(cv, ex.Num("0")), ex.Num("1")), ex.Call("add", ex.Attr(cv, "a"), ex.Num("1")),
		)
		// arguments whose conversion to the parameter type fails (or not) inside the value
		for _, f := range []string{"mapn", "listn", "setb", "objn", "mapmapn", "listobj", "listmaps"} {
			for _, sfx := range []string{"", "m"} {
				// an unmarked constructor around an object whose *key* comes from the marked value
				// (the object is marked as a whole, its container is not)
				keyed := ex.Obj(ex.ExItem(cv, ex.Tuple(ex.Num("1"), ex.Num("2"))))
				out = append(out, ex.Call(f+sfx, ex.Tuple(keyed)), ex.Call(f+sfx, keyed), ex.Call(f+sfx, ex.Obj(ex.IdItem("k", keyed))), ex.Call("v"+f+sfx, ex.Tuple(keyed)))
				out = append(out, ex.CallX(f+sfx, cv), ex.CallX(f+sfx, ex.Tuple(cv, cv)), ex.CallX("v"+f+sfx, cv), ex.Call("v"+f+sfx, cv, cv),
					ex.Call(f+sfx, cv), ex.Call(f+sfx, ex.Tuple(cv)), ex.Call(f+sfx, ex.Obj(ex.IdItem("a", cv))), ex.Call(f+sfx, ex.Obj(ex.IdItem("k", cv))),
					ex.Call(f+sfx, ex.Attr(cv, "a")), ex.Call(f+sfx, ex.Idx(cv, ex.Num("0"))))
			}
		}
		// names close to an attribute name / key of the marked value
		for _, cn := range []string{canaryStr, canaryStr2} {
			for _, nm := range nearly(cn) {
				out = append(out, ex.Attr(cv, nm), ex.Idx(cv, ex.Str(nm)), ex.Splat(cv, true, ex.SAttr(nm)), ex.Splat(cv, false, ex.SAttr(nm)),
					ex.Attr(ex.Idx(cv, ex.Num("0")), nm), ex.Attr(ex.Attr(cv, "a"), nm), ex.Attr(ex.Attr(cv, "b"), nm),
					ex.ForT("", "v", cv, ex.Attr(v, nm), nil))
			}
		}
	}
	return out
}

// jsonForms: JSON-syntax expressions (X is replaced by each variable name) aimed at the JSON front end's own diagnostics.
func jsonForms() []string {
	tmpls := []string{
		`{"${X}": 1, "${X}": 2}`, `{"k${X}": 1, "k${X}": 2}`, `{"${X}": 1, "a": 2, "${X}": {"${X}": 3, "${X}": 4}}`,
		`["${X}", {"${X}": "${X}"}]`, `"${X.nope}"`, `"${X[X]}"`, `"${X + 1}"`, `"%{ if X }a%{ endif }"`, `"%{ for v in X }${v + 1}%{ endfor }"`,
		`{"${[X]}": 1}`, `{"${X}": "${nosuch}"}`,
	}
	var out []string
	for _, v := range []string{"sa", "one", "ls", "mn", "o", "t", "ss"} {
		for _, t := range tmpls {
			out = append(out, strings.ReplaceAll(t, "X", v))
		}
	}
	return out
}

func judgeJSON(d Data) engine.Outcome {
	src := []byte(d.Src)
	expr, pd := hcljson.ParseExpression(src, "t.json")
	if pd.HasErrors() {
		return engine.Skip()
	}
	files := map[string]*hcl.File{"t.json": {Bytes: src}}
	ndiags := 0
	var sums []string
	for _, name := range pool.VarNames {
		if !strings.Contains(d.Src, name) {
			continue
		}
		for pi, cv := range canaries(pool.Vars[name]) {
			ctx := &hcl.EvalContext{Variables: pool.WithVar(name, cv), Functions: funcs()}
			_, diags := expr.Value(ctx)
			ndiags += len(diags)
			if leak := checkDiags(diags, files); leak != "" {
				sum := ""
				for _, dg := range diags {
					if scan("", dg.Summary+" "+dg.Detail) != "" {
						sum = dg.Summary
					}
				}
				if sum == "" && len(diags) > 0 {
					sum = "text-writer:" + diags[0].Summary
					if tw := textWriterClass(leak); tw != "" {
						sum = tw
					}
				}
				class := "c19.json-leak." + slug(sum)
				if strings.HasPrefix(sum, "text-writer-value-of") {
					class = "c19.leak." + slug(sum) // the same defect as in the native syntax
				}
				return engine.Fail(class, "JSON source: %s\nvariable %s = canary placement %d (marked)\n%s", d.Src, name, pi, leak)
			}
			for _, dg := range diags {
				sums = append(sums, dg.Summary)
			}
		}
	}
	counters.Add("diagnostics_scanned_json", int64(ndiags))
	if ndiags == 0 {
		return engine.Pass("")
	}
	return engine.Pass("json:" + strings.Join(dedup(sums), "|"))
}

func judge(c engine.Case) engine.Outcome {
	d := c.Data.(Data)
	if d.Kind == "body" {
		return judgeBody(d)
	}
	if d.Kind == "json" {
		return judgeJSON(d)
	}
	src := []byte(d.Src)
	var expr hclsyntax.Expression
	var pd hcl.Diagnostics
	if d.E.K == "tmpl" && d.E.Form == "b" {
		expr, pd = hclsyntax.ParseTemplate(src, "t.hcl", hcl.InitialPos)
	} else {
		expr, pd = hclsyntax.ParseExpression(src, "t.hcl", hcl.InitialPos)
	}
	if pd.HasErrors() {
		return engine.Skip()
	}
	files := map[string]*hcl.File{"t.hcl": {Bytes: src}}
	ndiags := 0
	var sums []string
	for _, name := range pool.FreeVars(d.E) {
		for pi, cv := range canaries(pool.Vars[name]) {
			ctx := &hcl.EvalContext{Variables: pool.WithVar(name, cv), Functions: funcs()}
			_, diags := expr.Value(ctx)
			ndiags += len(diags)
			if leak := checkDiags(diags, files); leak != "" {
				sum := ""
				for _, dg := range diags {
					if scan("", dg.Summary+" "+dg.Detail) != "" {
						sum = dg.Summary
					}
				}
				if sum == "" && len(diags) > 0 {
					sum = "text-writer:" + diags[0].Summary
					if tw := textWriterClass(leak); tw != "" {
						sum = tw
					}
				}
				return engine.Fail("c19.leak."+slug(sum), "source: %s\nvariable %s = canary placement %d (marked)\n%s", d.Src, name, pi, leak)
			}
			for _, dg := range diags {
				sums = append(sums, dg.Summary)
			}
		}
	}
	counters.Add("diagnostics_scanned", int64(ndiags))
	if ndiags == 0 {
		return engine.Pass("")
	}
	return engine.Pass(strings.Join(dedup(sums), "|"))
}

// textWriterClass recognises the text writer's "with NAME as VALUE" summary
// line: when the leaked value is that of a name bound by a for expression /
// directive (not a variable of the scope), every such leak is one defect.
func textWriterClass(leak string) string {
	// the leak text quotes the rendering with %q: lines are separated by a literal backslash-n
	for _, line := range strings.Split(leak, `\n`) {
		if !strings.HasPrefix(line, "with ") {
			continue
		}
		rest := line[5:]
		j := strings.Index(rest, " as ")
		if j < 0 || j > 40 {
			continue
		}
		if scan("", rest) == "" {
			continue
		}
		root := rest[:j]
		if k := strings.IndexAny(root, ".["); k >= 0 {
			root = root[:k]
		}
		if _, isPool := pool.Vars[root]; !isPool {
			return "text-writer-value-of-iteration-variable"
		}
		return "text-writer-value-of-scope-variable"
	}
	return ""
}

func dedup(a []string) []string {
	seen := map[string]bool{}
	var out []string
	for _, s := range a {
		if !seen[s] {
			seen[s] = true
			out = append(out, s)
		}
	}
	return out
}

func slug(s string) string {
	s = strings.ToLower(s)
	var sb strings.Builder
	for _, c := range s {
		if (c >= 'a' && c <= 'z') || (c >= '0' && c <= '9') {
			sb.WriteRune(c)
		} else {
			sb.WriteByte('-')
		}
	}
	return strings.Trim(sb.String(), "-")
}

func main() {
	engine.Main(&engine.Check{
		ID:        "C19",
		Title:     "Diagnostics never reveal the content of marked values",
		Technique: "bounded exhaustive canary sweep over expression ASTs and bodies x variable x canary placements, scanning every diagnostic and its text renderings, on the real evaluator/decoder",
		Rule: "every AST of the expression families that refers to a variable, plus 500 erroneous forms aimed at the value-formatting diagnostic sites and 77 JSON-syntax expressions (duplicate / invalid object keys and templates built from the marked variable), x every variable referred to x every canary placement for its kind (whole value, elements, map keys / attribute names, numeric string, element-level marks); bodies: see rule_bodies. " +
			"All diagnostics' Summary and Detail and the NewDiagnosticTextWriter output (width 0/78, colour off/on, source registered) are scanned for the canaries. Non-trivial = at least one diagnostic produced; distinct = distinct sets of diagnostic summaries reached.",
		Assumptions: []string{"messages produced by application-supplied functions are out of scope: the function table's functions return canary-free errors", "a canary never occurs in source text or in unmarked values, so any hit came from a marked value"},
		Gen:         gen,
		Judge:       judge,
		Load:        engine.LoadAs[Data],
		Extra: func() map[string]any {
			m := map[string]any{"rule_bodies": bodyRule}
			for k, v := range counters.Snapshot() {
				m[k] = v
			}
			return m
		},
		QuickBudget:    5 * time.Minute,
		ThoroughBudget: 45 * time.Minute,
	})
}
