package main

import (
	"fmt"
	"sort"
	"strings"

	"github.com/hashicorp/hcl/v2"
	"github.com/hashicorp/hcl/v2/ext/dynblock"
	"github.com/hashicorp/hcl/v2/gohcl"
	"github.com/hashicorp/hcl/v2/hcldec"
	"github.com/hashicorp/hcl/v2/hclsyntax"
	"github.com/zclconf/go-cty/cty"

	"verif/engine"
	"verif/gen/pool"
)

type BodyCase struct {
	Text string `json:"text"`
	Spec string `json:"spec"`
	Var  string `json:"var"`
}

const bodyRule = "bodies: 28 body templates (attributes of the wrong type for the spec, required/validated attributes, dynamic blocks whose for_each / labels / iterator / content use the marked variable, incl. invalid for_each types, null and marked labels) x marked variable in {sa, one, ls, mn, o, bt, sn, ss, ln, t, oo, lo} x 16 hcldec specs (typed attributes incl. nested collection types that force failing conversions inside the value, BlockMap/BlockObject labels, BlockAttrs with primitive and collection element types) and 6 gohcl target types; dynblock.Expand + hcldec.Decode / gohcl.DecodeBody"

func typed(t cty.Type) hcldec.Spec { return &hcldec.AttrSpec{Name: "a", Type: t, Required: true} }

var specTable = map[string]hcldec.Spec{
	"a-number": hcldec.ObjectSpec{"a": typed(cty.Number)},
	"a-bool":   hcldec.ObjectSpec{"a": typed(cty.Bool)},
	"a-list":   hcldec.ObjectSpec{"a": typed(cty.List(cty.Number))},
	"a-object": hcldec.ObjectSpec{"a": typed(cty.Object(map[string]cty.Type{"q": cty.Number}))},
	"a-map":    hcldec.ObjectSpec{"a": typed(cty.Map(cty.Bool))},
	"a-mapn":   hcldec.ObjectSpec{"a": typed(cty.Map(cty.Number))},
	"a-mapmap": hcldec.ObjectSpec{"a": typed(cty.Map(cty.Map(cty.Number)))},
	"a-lobj":   hcldec.ObjectSpec{"a": typed(cty.List(cty.Object(map[string]cty.Type{"a": cty.Bool})))},
	// the same attribute decoded with gohcl into a Go type (see gohclTargets)
	"g-int": nil, "g-bool": nil, "g-ints": nil, "g-mapint": nil, "g-mapmap": nil, "g-struct": nil,
	"b-list":   hcldec.ObjectSpec{"b": &hcldec.BlockListSpec{TypeName: "b", Nested: hcldec.ObjectSpec{"a": typed(cty.Number)}}},
	"b-set":    hcldec.ObjectSpec{"b": &hcldec.BlockSetSpec{TypeName: "b", Nested: hcldec.ObjectSpec{"a": typed(cty.Bool)}}},
	"b-map":    hcldec.ObjectSpec{"b": &hcldec.BlockMapSpec{TypeName: "b", LabelNames: []string{"k"}, Nested: hcldec.ObjectSpec{"a": typed(cty.Number)}}},
	"b-object": hcldec.ObjectSpec{"b": &hcldec.BlockObjectSpec{TypeName: "b", LabelNames: []string{"k"}, Nested: hcldec.ObjectSpec{"a": typed(cty.Number)}}},
	"b-attrs":  hcldec.ObjectSpec{"b": &hcldec.BlockAttrsSpec{TypeName: "b", ElementType: cty.Number}},
	"b-attrsm": hcldec.ObjectSpec{"b": &hcldec.BlockAttrsSpec{TypeName: "b", ElementType: cty.Map(cty.Number)}},
	"b-attrsl": hcldec.ObjectSpec{"b": &hcldec.BlockAttrsSpec{TypeName: "b", ElementType: cty.List(cty.Map(cty.Bool))}},
	"b-single": hcldec.ObjectSpec{"b": &hcldec.BlockSpec{TypeName: "b", Nested: hcldec.ObjectSpec{"a": typed(cty.Number)}}},
}

// gohclTargets: fresh decoding targets for the g-* pseudo specs.
var gohclTargets = map[string]func() any{
	"g-int": func() any {
		return &struct {
			A int `hcl:"a"`
		}{}
	},
	"g-bool": func() any {
		return &struct {
			A bool `hcl:"a"`
		}{}
	},
	"g-ints": func() any {
		return &struct {
			A []int `hcl:"a"`
		}{}
	},
	"g-mapint": func() any {
		return &struct {
			A map[string]int `hcl:"a"`
		}{}
	},
	"g-mapmap": func() any {
		return &struct {
			A map[string]map[string]int `hcl:"a"`
		}{}
	},
	"g-struct": func() any {
		return &struct {
			A struct {
				A bool `cty:"a"`
			} `hcl:"a"`
		}{}
	},
}

type tmpl struct {
	text   string
	labels bool
	attr   bool
}

var templates = []tmpl{
	{text: "a = X\n", attr: true},
	{text: "a = [X, X]\n", attr: true},
	{text: "a = { (X) = X }\n", attr: true},
	{text: "a = \"${X}\"\n", attr: true},
	{text: "a = X[0]\n", attr: true},
	{text: "a = X.a\n", attr: true},
	{text: "a = [X[0]]\n", attr: true},
	{text: "a = { k = X }\n", attr: true},
	{text: "b {\n  a = X[0]\n}\n"},
	{text: "b {\n  a = [X.a]\n}\n"},
	{text: "b {\n  a = X\n}\n"},
	{text: "b \"l\" {\n  a = X\n}\nb \"l\" {\n  a = X\n}\n", labels: true},
	{text: "dynamic \"b\" {\n  for_each = X\n  content {\n    a = b.value\n  }\n}\n"},
	{text: "dynamic \"b\" {\n  for_each = X\n  content {\n    a = b.key\n  }\n}\n"},
	{text: "dynamic \"b\" {\n  for_each = [X]\n  content {\n    a = b.value\n  }\n}\n"},
	{text: "dynamic \"b\" {\n  for_each = X\n  iterator = X\n  content {\n    a = 1\n  }\n}\n"},
	{text: "dynamic \"b\" {\n  for_each = [1]\n  labels = [X]\n  content {\n    a = 1\n  }\n}\n", labels: true},
	{text: "dynamic \"b\" {\n  for_each = X\n  labels = [b.key]\n  content {\n    a = 1\n  }\n}\n", labels: true},
	{text: "dynamic \"b\" {\n  for_each = X\n  labels = [b.value]\n  content {\n    a = b.value\n  }\n}\n", labels: true},
	{text: "dynamic \"b\" {\n  for_each = X\n  labels = [b.value, b.value]\n  content {\n    a = 1\n  }\n}\n", labels: true},
	{text: "dynamic \"b\" {\n  for_each = [X, X]\n  labels = [b.value]\n  content {\n    a = b.value\n  }\n}\n", labels: true},
	// the same for_each twice: duplicate labels / duplicate keys computed from the iterator
	{text: "dynamic \"b\" {\n  for_each = X\n  labels = [b.key]\n  content {\n    a = 1\n  }\n}\ndynamic \"b\" {\n  for_each = X\n  labels = [b.key]\n  content {\n    a = 2\n  }\n}\n", labels: true},
	{text: "dynamic \"b\" {\n  for_each = X\n  labels = [\"${b.value}\"]\n  content {\n    a = 1\n  }\n}\ndynamic \"b\" {\n  for_each = X\n  labels = [\"${b.value}\"]\n  content {\n    a = 2\n  }\n}\n", labels: true},
	{text: "dynamic \"b\" {\n  for_each = X\n  content {\n    a = { for k in [b.key, b.key] : k => 1 }\n  }\n}\n"},
	{text: "dynamic \"b\" {\n  for_each = X\n  content {\n    a = { for k in [b.value, b.value] : k => 1 }\n  }\n}\n"},
	{text: "dynamic \"b\" {\n  for_each = X\n  content {\n    a = b.key + b.value\n  }\n}\n"},
	{text: "dynamic \"b\" {\n  for_each = X\n  iterator = it\n  content {\n    a = it.key.nope\n  }\n}\n"},
	{text: "dynamic \"b\" {\n  for_each = X\n  content {\n    dynamic \"b\" {\n      for_each = b.value\n      content {\n        a = b.value\n      }\n    }\n  }\n}\n"},
}

var bodyVars = []string{"sa", "one", "ls", "mn", "o", "bt", "sn", "ss", "ln", "t", "oo", "lo"}

func genBodies(tier string, emit func(engine.Case) bool) {
	var specNames []string
	for k := range specTable {
		specNames = append(specNames, k)
	}
	sort.Strings(specNames)
	for ti, t := range templates {
		for _, v := range bodyVars {
			text := strings.ReplaceAll(t.text, "X", v)
			for _, sn := range specNames {
				isAttr := strings.HasPrefix(sn, "a-") || strings.HasPrefix(sn, "g-")
				if isAttr != t.attr {
					continue
				}
				needLabels := sn == "b-map" || sn == "b-object"
				if !isAttr && needLabels != t.labels {
					continue
				}
				id := fmt.Sprintf("body/%d/%s/%s", ti, v, sn)
				if !emit(engine.Case{ID: id, Data: Data{Kind: "body", Family: "body", Src: text, Body: &BodyCase{Text: text, Spec: sn, Var: v}}}) {
					return
				}
			}
		}
	}
}

func judgeBody(d Data) engine.Outcome {
	bc := d.Body
	spec := specTable[bc.Spec]
	target := gohclTargets[bc.Spec]
	if spec == nil && target == nil {
		return engine.Skip()
	}
	src := []byte(bc.Text)
	f, pd := hclsyntax.ParseConfig(src, "t.hcl", hcl.InitialPos)
	if pd.HasErrors() {
		return engine.Skip()
	}
	files := map[string]*hcl.File{"t.hcl": f}
	ndiags := 0
	var sums []string
	for pi, cv := range canaries(pool.Vars[bc.Var]) {
		ctx := &hcl.EvalContext{Variables: pool.WithVar(bc.Var, cv), Functions: funcs()}
		body := dynblock.Expand(f.Body, ctx)
		var diags hcl.Diagnostics
		if target != nil {
			// gocty cannot represent marks: gohcl panics when a marked value reaches the Go target.
			// That is not a statement about diagnostics, so such a run contributes nothing here.
			func() {
				defer func() {
					if r := recover(); r != nil {
						counters.Add("gohcl_marked_value_panics_not_judged", 1)
						diags = nil
					}
				}()
				diags = gohcl.DecodeBody(body, ctx, target())
			}()
		} else {
			_, diags = hcldec.Decode(body, spec, ctx)
		}
		ndiags += len(diags)
		if leak := checkDiags(diags, files); leak != "" {
			sum := ""
			for _, dg := range diags {
				if scan("", dg.Summary+" "+dg.Detail) != "" {
					sum = dg.Summary
				}
			}
			if sum == "" && len(diags) > 0 {
				sum = "text-writer:" + diags[0].Summary
			}
			return engine.Fail("c19.body-leak."+slug(sum), "spec %s, body:\n%s\nvariable %s = canary placement %d (marked)\n%s", bc.Spec, bc.Text, bc.Var, pi, leak)
		}
		for _, dg := range diags {
			sums = append(sums, dg.Summary)
		}
	}
	counters.Add("diagnostics_scanned_bodies", int64(ndiags))
	if ndiags == 0 {
		return engine.Pass("")
	}
	return engine.Pass("body:" + strings.Join(dedup(sums), "|"))
}

var _ = cty.String
