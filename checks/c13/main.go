// C13 — The JSON syntax accepts exactly JSON and maps literals faithfully.
//
// Bounded exhaustive exploration of byte strings (all strings up to a length
// over a JSON-relevant byte alphabet, plus every single-byte edit of a corpus
// of grammar-generated documents) through the real json.ParseExpression /
// json.Parse, compared with an independent RFC 8259 recogniser/decoder.
package main

import (
	stdjson "encoding/json"
	"fmt"
	"math/big"
	"strconv"
	"strings"
	"unicode/utf8"

	"github.com/hashicorp/hcl/v2"
	"github.com/hashicorp/hcl/v2/hclsyntax"
	hcljson "github.com/hashicorp/hcl/v2/json"
	"github.com/zclconf/go-cty/cty"
	"github.com/zclconf/go-cty/cty/convert"

	"verif/engine"
	"verif/ref/refjson"
	"verif/vfmt"
)

type Data struct {
	Src  []byte `json:"src"`
	Text string `json:"text"` // informational: %q of Src
}

var counters engine.Counter

var alphabet = []byte{'{', '}', '[', ']', ',', ':', '"', '\\', '/', '0', '1', '-', '+', '.', 'e', 'E',
	't', 'r', 'u', 'f', 'a', 'l', 's', 'n', ' ', '\n', '\r', '\t', 0x00, 0x1f, 0x7f, 0x80, 0xc3, 0xa9, 0xff,
	0x0b, 0x0c} // VT and FF: white space to many lexers, not to JSON

// separators: multi-byte sequences other grammars treat as white space or comments; each is inserted
// at every position of every corpus document of at most 60 bytes.
var separators = []string{"\u00a0", "\u0085", "\u2028", "\u2029", "\ufeff", "\u3000", "\u1680", "\u200b", "/*c*/", "//c\n", "#c\n"}

func mk(b []byte) engine.Case {
	c := append([]byte(nil), b...)
	return engine.Case{ID: fmt.Sprintf("%x", c), Data: Data{Src: c, Text: strconv.Quote(string(c))}}
}

// corpus of grammar-generated documents (every escape form, surrogates,
// numbers, nesting, whitespace forms); each is also subjected to all
// single-byte edits.
func corpus() []string {
	docs := []string{
		`{}`, `[]`, `""`, `0`, `-0`, `true`, `false`, `null`,
		`{"a":1}`, `{"a":1,"b":[true,false,null]}`, `[1,2]`, `[[],{}]`, `{"a":{"b":{"c":[]}}}`,
		`"\"\\\/\b\f\n\r\t"`, `"Aé€"`, `"😀"`, `"\ud83d"`, `"\ude00"`, `"\ud83dA"`,
		`"é😀"`, "\"a b\"", `"\u0000"`, `"${a}"`, `"%{if true}x%{endif}"`, `"$${a}"`, `"${"`, `"a${n}b"`,
		`{"a":1,"a":2}`, `{"${a}":1}`, `{"a":{"x":1,"x":2}}`, `[{"k":1,"k":1}]`,
		// names that differ as code points and are the same string after NFC normalisation
		"{\"\u00e9\":1,\"e\u0301\":2}", "{\"e\u0301\":1,\"\u00e9\":2}", "[{\"a\":{\"\u212b\":1,\"\u00c5\":2}}]", "{\"a\u0323\u0307\":1,\"a\u0307\u0323\":2}", `{"\u00e9":1,"e\u0301":2}`,
		`1.5`, `-1.5e3`, `1E+2`, `1e-2`, `0.0`, `10`, `1e0`, `0e0`, `-0.0e-0`, `123456789012345678901234567890`,
		`0.1`, `1e308`, `1e-400`, `1e400`,
		`9007199254740993`, `-9007199254740993`, `9223372036854775807`, `9223372036854775808`, `123456789012345678`, `18446744073709551615`, `4294967296`, `-2147483649`,
		`{"n":9007199254740993,"m":[123456789012345678]}`, `1.000000000000000000000001`, `12345678901234567890.123456789`,
		" \t\r\n{ \"a\" : [ 1 , 2 ] } \r\n", "[\n1\n,\n2\n]",
		`{"//":"c","a":1}`,
		// characters that form a grapheme cluster with the following quote / delimiter (Unicode Prepend, ZWJ, combining marks)
		"[\"a\u0600\",1]", "\"\u0600\"", "{\"k\u0600\":\"v\u0301\"}", "[\"\u200d\",\"e\u0301\"]", "\"a\u0600\" ",
		// ... followed by an escape sequence
		"\"\u0600\\\"\"", "[\"\u0600\\\\\", 1]", "{\"\u0600\\\"\":\"\u06dd\\\\\"}", "\"\u0600\\n\u070f\\u0041\"", "\"e\u0301\\\"\u200d\\\\\"",
		`{"a":"b","c":{"d":["e",{"f":null}]}}`,
	}
	// size dimension: element / member counts and nesting depths that cross the usual boundaries
	for _, n := range []int{15, 16, 17, 255, 256, 257, 1023, 1024, 1025, 4095, 4096, 4097, 9999, 10000, 10001, 65535, 65536, 65537} {
		docs = append(docs, "["+strings.TrimSuffix(strings.Repeat("[1,2],", n), ",")+"]")
		if n <= 10001 {
			docs = append(docs, "["+strings.TrimSuffix(strings.Repeat(`{"a":[]},`, n), ",")+"]")
			var sb strings.Builder
			sb.WriteString("{")
			for i := 0; i < n; i++ {
				if i > 0 {
					sb.WriteString(",")
				}
				fmt.Fprintf(&sb, `"k%d":[%d]`, i, i)
			}
			sb.WriteString("}")
			docs = append(docs, sb.String())
		}
	}
	for _, n := range []int{127, 128, 129, 255, 256, 257, 1000} {
		docs = append(docs, strings.Repeat("[", n)+strings.Repeat("]", n), strings.Repeat(`{"a":[`, n/2)+"1"+strings.Repeat("]}", n/2))
	}
	docs = append(docs, strings.Repeat("[", 64)+strings.Repeat("]", 64))
	docs = append(docs, strings.Repeat(`{"a":`, 32)+"1"+strings.Repeat("}", 32))
	docs = append(docs, "1"+strings.Repeat("0", 80))                   // 81-digit integer: exactly representable in 512 bits
	docs = append(docs, "0."+strings.Repeat("3", 300))                 // long fraction: rounded to nearest
	docs = append(docs, strings.Repeat("9", 600))                      // 600-digit integer: not representable
	docs = append(docs, "1e999999999", "-1e999999999", "1e-999999999") // extreme exponents
	return docs
}

func gen(tier string, emit func(engine.Case) bool) {
	maxLen := 4
	if tier == "thorough" {
		maxLen = 5
	}
	// (b) corpus and single-byte edits first (small), then (a) all byte strings.
	for _, d := range corpus() {
		b := []byte(d)
		if !emit(mk(b)) {
			return
		}
		if len(b) > 200 && (tier != "thorough" || len(b) > 2000) {
			continue
		}
		if len(b) <= 60 {
			for i := 0; i <= len(b); i++ {
				for _, sep := range separators {
					if !emit(mk([]byte(string(b[:i]) + sep + string(b[i:])))) {
						return
					}
				}
			}
		}
		for i := 0; i <= len(b); i++ {
			if i < len(b) {
				del := append(append([]byte{}, b[:i]...), b[i+1:]...)
				if !emit(mk(del)) {
					return
				}
			}
			for _, a := range alphabet {
				ins := append(append(append([]byte{}, b[:i]...), a), b[i:]...)
				if !emit(mk(ins)) {
					return
				}
				if i < len(b) && b[i] != a {
					rep := append([]byte{}, b...)
					rep[i] = a
					if !emit(mk(rep)) {
						return
					}
				}
			}
		}
	}
	// template-relevant strings of length <= 3 wrapped as JSON strings and keys
	talpha := []string{"$", "%", "{", "}", "a", "~", `\"`, `\\`, " ", `\n`, "é", `$`}
	var rec func(prefix string, n int) bool
	rec = func(prefix string, n int) bool {
		if !emit(mk([]byte(`"` + prefix + `"`))) {
			return false
		}
		if !emit(mk([]byte(`{"` + prefix + `":"` + prefix + `"}`))) {
			return false
		}
		if n == 0 {
			return true
		}
		for _, a := range talpha {
			if !rec(prefix+a, n-1) {
				return false
			}
		}
		return true
	}
	tl := 3
	if tier == "thorough" {
		tl = 4
	}
	if !rec("", tl) {
		return
	}
	// (a) all byte strings of length <= maxLen
	buf := make([]byte, 0, maxLen)
	var all func(n int) bool
	all = func(n int) bool {
		if !emit(mk(buf)) {
			return false
		}
		if n == 0 {
			return true
		}
		for _, a := range alphabet {
			buf = append(buf, a)
			ok := all(n - 1)
			buf = buf[:len(buf)-1]
			if !ok {
				return false
			}
		}
		return true
	}
	// enumerate by increasing length so that the simplest strings come first
	for l := 0; l <= maxLen; l++ {
		var exact func(n int) bool
		exact = func(n int) bool {
			if n == 0 {
				return emit(mk(buf))
			}
			for _, a := range alphabet {
				buf = append(buf, a)
				ok := exact(n - 1)
				buf = buf[:len(buf)-1]
				if !ok {
					return false
				}
			}
			return true
		}
		if !exact(l) {
			return
		}
	}
	_ = all
}

type want struct {
	v      cty.Value
	err    bool
	unspec bool
	class  string // for expected-error cases that map to a known region
}

// numberWant maps a JSON number text to the value spec.md prescribes.
func numberWant(text string) want {
	// split exponent
	mant, exp := text, ""
	if i := strings.IndexAny(text, "eE"); i >= 0 {
		mant, exp = text[:i], text[i+1:]
	}
	e := int64(0)
	if exp != "" {
		var err error
		e, err = strconv.ParseInt(exp, 10, 64)
		if err != nil || e > 100000 || e < -100000 {
			// astronomically large/small: an integer that cannot be
			// represented (error demanded) or an underflow (rounds to zero,
			// or error: spec speaks only of overflow) -- see classification.
			neg := strings.HasPrefix(exp, "-")
			zero := strings.Trim(mant, "-0.") == ""
			if zero {
				// zero times an exponent outside the range spec.md obliges an
				// implementation to support: zero or an error are both acceptable
				return want{unspec: true}
			}
			if neg {
				return want{unspec: true}
			}
			return want{err: true, class: "c13.inexact-integer-no-error"}
		}
	}
	r, ok := new(big.Rat).SetString(text)
	if !ok {
		return want{unspec: true}
	}
	if r.IsInt() {
		n := r.Num()
		if n.BitLen() > 512 {
			// could still be exact if trailing zero bits; check exactness
			f := new(big.Float).SetPrec(512).SetInt(n)
			if f.Acc() != big.Exact {
				return want{err: true, class: "c13.inexact-integer-no-error"}
			}
			return want{v: cty.NumberVal(f)}
		}
		return want{v: cty.NumberVal(new(big.Float).SetPrec(512).SetInt(n))}
	}
	// non-integer: nearest value at the implementation's precision; we accept
	// any value within 2^-500 relative error (the spec demands >= 256 bits).
	f := new(big.Float).SetPrec(512).SetRat(r)
	return want{v: cty.NumberVal(f)}
}

func numberClose(got, wantV cty.Value) bool {
	if got.RawEquals(wantV) {
		return true
	}
	if got.Type() != cty.Number || got.IsNull() || !got.IsKnown() {
		return false
	}
	g, w := got.AsBigFloat(), wantV.AsBigFloat()
	if g.IsInf() || w.IsInf() {
		return false
	}
	if w.IsInt() {
		return g.Cmp(w) == 0
	}
	d := new(big.Float).SetPrec(600).Sub(g, w)
	d.Abs(d)
	tol := new(big.Float).SetPrec(600).Abs(w)
	tol.SetMantExp(tol, -500)
	return d.Cmp(tol) <= 0
}

// expected value per json/spec.md. ctx == nil: literal-only mode. Otherwise
// strings denote what the native template parser assigns to their content.
func expected(n *refjson.Node, ctx *hcl.EvalContext) want {
	switch n.Kind {
	case refjson.Null:
		return want{v: cty.NullVal(cty.DynamicPseudoType)}
	case refjson.Bool:
		return want{v: cty.BoolVal(n.B)}
	case refjson.Number:
		return numberWant(n.Num)
	case refjson.String:
		if n.LoneSurrogate {
			return want{unspec: true}
		}
		return stringWant(n.Str, ctx)
	case refjson.Array:
		vals := make([]cty.Value, 0, len(n.Elems))
		res := want{}
		for _, e := range n.Elems {
			w := expected(e, ctx)
			if w.unspec {
				res.unspec = true
			}
			if w.err {
				res.err = true
				if res.class == "" {
					res.class = w.class
				}
				continue
			}
			vals = append(vals, w.v)
		}
		if res.err || res.unspec {
			return res
		}
		res.v = cty.TupleVal(vals)
		return res
	case refjson.Object:
		attrs := map[string]cty.Value{}
		res := want{}
		for _, m := range n.Members {
			if m.NameLoneSurrogate {
				res.unspec = true
				continue
			}
			kw := stringWant(m.Name, ctx)
			vw := expected(m.Val, ctx)
			if kw.unspec || vw.unspec {
				res.unspec = true
			}
			if vw.err {
				res.err = true
				if res.class == "" {
					res.class = vw.class
				}
			}
			if kw.err {
				res.err = true
				continue
			}
			if kw.unspec {
				continue
			}
			k, err := convert.Convert(kw.v, cty.String)
			if err != nil || k.IsNull() {
				res.err = true
				continue
			}
			name := k.AsString()
			if _, dup := attrs[name]; dup {
				res.err = true
				continue
			}
			if !vw.err && !vw.unspec {
				attrs[name] = vw.v
			} else {
				attrs[name] = cty.DynamicVal
			}
		}
		if res.err || res.unspec {
			return res
		}
		res.v = cty.ObjectVal(attrs)
		return res
	}
	return want{unspec: true}
}

func stringWant(s string, ctx *hcl.EvalContext) want {
	if ctx == nil {
		return want{v: cty.StringVal(s)}
	}
	// "In full-expression mode a string denotes exactly what the native
	// template parser assigns to its content."
	expr, diags := hclsyntax.ParseTemplate([]byte(s), "t.json", hcl.InitialPos)
	if diags.HasErrors() {
		return want{err: true}
	}
	v, vd := expr.Value(ctx)
	if vd.HasErrors() {
		return want{err: true}
	}
	return want{v: v}
}

var evalCtx = &hcl.EvalContext{
	Variables: map[string]cty.Value{
		"a": cty.StringVal("A"),
		"n": cty.NumberIntVal(7),
		"t": cty.True,
		"l": cty.ListVal([]cty.Value{cty.StringVal("x"), cty.StringVal("y")}),
	},
}

func judge(c engine.Case) engine.Outcome {
	d := c.Data.(Data)
	src := d.Src
	ref, ok := refjson.Parse(src)
	std := stdjson.Valid(src) && utf8.Valid(src)
	if ok != std {
		// The two references disagree: a harness problem, never a violation.
		counters.Add("reference_disagreements", 1)
		return engine.Skip()
	}
	expr, diags := hcljson.ParseExpression(src, "t.json")
	if expr == nil {
		return engine.Fail("c13.nil-expression", "ParseExpression(%q) returned nil expression", src)
	}
	acc := !diags.HasErrors()
	if acc && !ok {
		if stdjson.Valid(src) {
			return engine.Fail("c13.accepts-invalid-utf8", "ParseExpression accepts %q, which is not well-formed UTF-8 (RFC 8259 section 8.1)", src)
		}
		return engine.Fail("c13.accepts-non-json", "ParseExpression accepts %q, which is not a JSON text", src)
	}
	if !acc && ok && hasUnrepresentableNumber(ref) {
		// spec.md demands an error for an integer that cannot be represented;
		// reporting it at parse time instead of at evaluation is acceptable.
		return engine.Pass("rejected-unrepresentable-number")
	}
	if !acc && ok {
		return engine.Fail("c13.rejects-valid-json", "ParseExpression rejects valid JSON text %q: %s", src, diags.Error())
	}
	f, fd := hcljson.Parse(src, "t.json")
	if f == nil || f.Body == nil {
		return engine.Fail("c13.nil-file", "Parse(%q) returned nil file/body", src)
	}
	if ok && !acc {
		return engine.Pass("rejected-unrepresentable-number")
	}
	wantFile := ok && (ref.Kind == refjson.Object || ref.Kind == refjson.Array)
	if !fd.HasErrors() != wantFile {
		if !ok && stdjson.Valid(src) {
			return engine.Fail("c13.accepts-invalid-utf8", "Parse accepts %q, which is not well-formed UTF-8", src)
		}
		return engine.Fail("c13.file-acceptance", "Parse(%q): accepted=%v, want %v (valid JSON=%v)", src, !fd.HasErrors(), wantFile, ok)
	}
	if !ok {
		return engine.Pass("")
	}
	sig := ""
	for mode, ctx := range []*hcl.EvalContext{nil, evalCtx} {
		w := expected(ref, ctx)
		got, vd := expr.Value(ctx)
		if w.unspec {
			continue
		}
		gotErr := vd.HasErrors()
		if w.err != gotErr {
			class := "c13.value-error-mismatch"
			if w.class != "" {
				class = w.class
			}
			return engine.Fail(class, "Value(mode=%d) of %q: error=%v (%s) but the specification demands error=%v; value %s", mode, src, gotErr, vd.Error(), w.err, vfmt.V(got))
		}
		if w.err {
			sig += "E"
			continue
		}
		if !valueMatches(got, w.v) {
			return engine.Fail("c13.value-mismatch", "Value(mode=%d) of %q = %s, specification says %s", mode, src, vfmt.V(got), vfmt.V(w.v))
		}
		sig += vfmt.V(got) + ";"
	}
	return engine.Pass(sig)
}

func hasUnrepresentableNumber(n *refjson.Node) bool {
	switch n.Kind {
	case refjson.Number:
		w := numberWant(n.Num)
		return w.err || w.unspec
	case refjson.Array:
		for _, e := range n.Elems {
			if hasUnrepresentableNumber(e) {
				return true
			}
		}
	case refjson.Object:
		for _, m := range n.Members {
			if hasUnrepresentableNumber(m.Val) {
				return true
			}
		}
	}
	return false
}

func shrinkBytes(c engine.Case) []engine.Case {
	d := c.Data.(Data)
	var out []engine.Case
	if len(d.Src) > 2000 {
		// large documents (size family): remove halves, quarters, eighths only
		for _, parts := range []int{2, 4, 8} {
			chunk := len(d.Src) / parts
			for i := 0; i < parts; i++ {
				out = append(out, mk(append(append([]byte{}, d.Src[:i*chunk]...), d.Src[(i+1)*chunk:]...)))
			}
		}
		return out
	}
	for i := range d.Src {
		out = append(out, mk(append(append([]byte{}, d.Src[:i]...), d.Src[i+1:]...)))
	}
	return out
}

func valueMatches(got, w cty.Value) bool {
	if got.RawEquals(w) {
		return true
	}
	if !got.Type().Equals(w.Type()) || got.IsNull() != w.IsNull() || !got.IsKnown() || got.IsNull() {
		return false
	}
	ty := w.Type()
	switch {
	case ty == cty.Number:
		return numberClose(got, w)
	case ty.IsTupleType():
		if got.LengthInt() != w.LengthInt() {
			return false
		}
		for i := 0; i < w.LengthInt(); i++ {
			if !valueMatches(got.Index(cty.NumberIntVal(int64(i))), w.Index(cty.NumberIntVal(int64(i)))) {
				return false
			}
		}
		return true
	case ty.IsObjectType():
		for k := range ty.AttributeTypes() {
			if !valueMatches(got.GetAttr(k), w.GetAttr(k)) {
				return false
			}
		}
		return true
	}
	return false
}

func main() {
	engine.Main(&engine.Check{
		ID:        "C13",
		Title:     "The JSON syntax accepts exactly JSON and maps literals faithfully",
		Technique: "bounded exhaustive enumeration of byte strings and single-byte edits, differential against an independent RFC 8259 recogniser/decoder",
		Rule: "all byte strings of length <= 4 (quick) / <= 5 (thorough) over a 37-byte JSON-relevant alphabet (incl. VT, FF); a corpus of grammar-generated documents with every single-byte delete/insert/replace and every insertion of 11 multi-byte non-JSON separators (Unicode spaces, BOM, comments); documents with 15..65537 arrays / objects / members and nesting depths up to 1000 (unedited); all template-relevant strings of length <= 3/4 as JSON strings and object keys. " +
			"Each is run through json.ParseExpression, json.Parse, Value(nil) and Value(ctx). Non-trivial = the text is accepted; distinct = distinct (literal value, template-mode value) observations.",
		Assumptions: []string{"go-cty number parsing/conversion, encoding/json.Valid and unicode/utf8 are trusted (used to cross-check the reference recogniser)", "hclsyntax.ParseTemplate is the oracle for template-mode strings, as the property states"},
		Gen:         gen,
		Judge:       judge,
		Load:        engine.LoadAs[Data],
		Shrink:      shrinkBytes,
		Extra: func() map[string]any {
			m := map[string]any{}
			for k, v := range counters.Snapshot() {
				m[k] = v
			}
			if _, ok := m["reference_disagreements"]; !ok {
				m["reference_disagreements"] = 0
			}
			return m
		},
		QuickBudget:    4 * 60e9,
		ThoroughBudget: 40 * 60e9,
	})
}
