// Command race runs the C17 driver bodies free-running (real goroutines on
// all OS threads) and is built with -race: the cooperative scheduler's
// hand-offs are happens-before edges that hide unsynchronised accesses, so
// data races are looked for separately here. Exit status 66 = race reported.
package main

import (
	"flag"
	"fmt"
	"os"
	"runtime"
	"sync"

	"verif/checks/c17/drivers"
)

func main() {
	rounds := flag.Int("rounds", 200, "rounds per driver")
	only := flag.String("driver", "", "only this driver")
	flag.Parse()
	bad := 0
	for _, d := range drivers.All() {
		if *only != "" && d.Name != *only {
			continue
		}
		solo := make([]string, d.Threads)
		for i := range solo {
			solo[i] = d.Thread(d.Setup(), i)
		}
		for r := 0; r < *rounds; r++ {
			shared := d.Setup()
			res := make([]string, d.Threads)
			var wg sync.WaitGroup
			start := make(chan struct{})
			for i := 0; i < d.Threads; i++ {
				wg.Add(1)
				go func(i int) {
					defer wg.Done()
					defer func() {
						if x := recover(); x != nil {
							res[i] = fmt.Sprintf("panic: %v", x)
						}
					}()
					<-start
					if (r+i)%3 == 0 {
						runtime.Gosched()
					}
					res[i] = d.Thread(shared, i)
				}(i)
			}
			close(start)
			wg.Wait()
			for i := range res {
				if res[i] != solo[i] {
					fmt.Printf("MISMATCH driver=%s goroutine=%d round=%d\n  got:  %s\n  solo: %s\n", d.Name, i, r, res[i], solo[i])
					bad++
				}
			}
		}
		fmt.Printf("driver %s: %d rounds ok\n", d.Name, *rounds)
	}
	if bad > 0 {
		os.Exit(3)
	}
}
