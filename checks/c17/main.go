// C17 — A parsed configuration can be evaluated concurrently.
//
// Systematic schedule exploration: /repo is built with its "sync" import
// redirected (go build -overlay, no source change) to a shim whose lock
// operations — and the entries of the functions of the evaluation, body and
// decoding code — are scheduling points of a cooperative scheduler. A
// depth-first explorer enumerates every schedule of small 2-3 goroutine
// drivers with at most k preemptions and compares each goroutine's result
// with the result of the same call run alone. A separate free-running -race
// pass over the same driver bodies covers unsynchronised accesses.
package main

import (
	"bytes"
	"encoding/json"
	"fmt"
	"go/ast"
	"go/parser"
	"go/printer"
	"go/token"
	"os"
	"os/exec"
	"path/filepath"
	"regexp"
	"strconv"
	"strings"
	"sync"
	"sync/atomic"
	"time"

	"verif/checks/c17/drivers"
	"verif/engine"
)

type Data struct {
	Kind     string `json:"kind"` // "sched" or "race"
	Driver   string `json:"driver"`
	Threads  int    `json:"threads"`
	Bound    int    `json:"bound"`
	Shard    string `json:"shard"`
	Schedule []int  `json:"schedule,omitempty"` // set on a shrunk case: exactly this schedule
	Doc      string `json:"doc,omitempty"`
}

type failure struct {
	Kind     string `json:"kind"`
	Schedule []int  `json:"schedule"`
	Detail   string `json:"detail"`
}

type report struct {
	Executions      int64     `json:"executions"`
	Points          int64     `json:"points"`
	MaxPoints       int       `json:"max_points"`
	MaxPreemptions  int       `json:"max_preemptions"`
	DistinctOutcome int       `json:"distinct_outcomes"`
	Divergences     int64     `json:"divergences"`
	Exhaustive      bool      `json:"exhaustive"`
	ReplayChecked   bool      `json:"replay_checked"`
	Failures        []failure `json:"failures"`
	Labels          []string  `json:"labels"`
}

var (
	goCmd      = "go"
	srcRoot    string // /verif (module root of the harness)
	workDir    string
	modfileArg []string
	repoDir    string

	buildOnce  sync.Once
	schedBin   string
	schedErr   string
	funcPoints = true

	executions, points, divergences atomic.Int64
	maxPoints, maxPre               atomic.Int64
	capped                          atomic.Bool
	perDriver                       sync.Map
	lastFail                        sync.Map // case id -> failure
	labelSet                        sync.Map
)

func goEnv() []string {
	env := os.Environ()
	env = append(env, "GOFLAGS=-mod=mod", "GOPROXY=off")
	return env
}

func runGo(args ...string) (string, error) {
	full := append([]string{}, args[:1]...)
	full = append(full, modfileArg...)
	full = append(full, args[1:]...)
	cmd := exec.Command(goCmd, full...)
	cmd.Dir = srcRoot
	cmd.Env = goEnv()
	var out bytes.Buffer
	cmd.Stdout, cmd.Stderr = &out, &out
	err := cmd.Run()
	return out.String(), err
}

func initPaths() {
	if g := os.Getenv("VERIF_GO"); g != "" {
		goCmd = g
	}
	srcRoot, _ = os.Getwd()
	if _, err := os.Stat(filepath.Join(srcRoot, "go.mod")); err != nil {
		srcRoot = "/verif"
	}
	out := os.Getenv("VERIF_DIR")
	if out == "" {
		out = srcRoot
	}
	workDir = filepath.Join(out, ".work", "c17")
	os.MkdirAll(workDir, 0o755)
	if mf := os.Getenv("VERIF_MODFILE"); mf != "" {
		modfileArg = []string{"-modfile=" + mf}
	}
	o, err := runGo("list", "-m", "-f", "{{.Dir}}", "github.com/hashicorp/hcl/v2")
	if err != nil {
		fmt.Fprintln(os.Stderr, "cannot locate the hcl module:", o)
		os.Exit(2)
	}
	repoDir = strings.TrimSpace(o)
}

// files whose function entries become scheduling points
func wantsFuncPoints(rel string) bool {
	switch {
	case strings.HasPrefix(rel, "hclsyntax/expression"), rel == "hclsyntax/structure.go", rel == "hclsyntax/variables.go",
		rel == "json/structure.go", strings.HasPrefix(rel, "ext/dynblock/"), rel == "eval_context.go", rel == "merged.go",
		rel == "ops.go", rel == "hcldec/spec.go", rel == "hcldec/decode.go", rel == "hcldec/variables.go", rel == "traversal.go":
		return true
	}
	return false
}

var pkgClause = regexp.MustCompile(`(?m)^package [A-Za-z_][A-Za-z_0-9]*[ \t]*\n`)

const shimImport = "github.com/hashicorp/hcl/v2/verifsync"
const atomicImport = "github.com/hashicorp/hcl/v2/verifsync/vatomic"

// genOverlay writes rewritten copies of the /repo sources that use sync (and,
// with funcs, of the files whose function entries become points) and returns
// the overlay file path.
func genOverlay(funcs bool) (string, int, error) {
	ovDir := filepath.Join(workDir, "overlay")
	os.RemoveAll(ovDir)
	replace := map[string]string{
		filepath.Join(repoDir, "verifsync", "sync.go"):              filepath.Join(srcRoot, "shim", "verifsync", "sync.go"),
		filepath.Join(repoDir, "verifsync", "vatomic", "atomic.go"): filepath.Join(srcRoot, "shim", "vatomic", "atomic.go"),
	}
	npoints := 0
	err := filepath.Walk(repoDir, func(path string, info os.FileInfo, err error) error {
		if err != nil {
			return err
		}
		rel, _ := filepath.Rel(repoDir, path)
		if info.IsDir() {
			base := filepath.Base(path)
			if rel != "." && (strings.HasPrefix(base, ".") || base == "testdata" || base == "verifsync") {
				return filepath.SkipDir
			}
			return nil
		}
		if !strings.HasSuffix(path, ".go") || strings.HasSuffix(path, "_test.go") {
			return nil
		}
		src, err := os.ReadFile(path)
		if err != nil {
			return err
		}
		usesSync := bytes.Contains(src, []byte(`"sync"`)) || bytes.Contains(src, []byte(`"sync/atomic"`))
		fp := funcs && wantsFuncPoints(filepath.ToSlash(rel))
		if !usesSync && !fp {
			return nil
		}
		fset := token.NewFileSet()
		f, err := parser.ParseFile(fset, path, src, parser.ParseComments)
		if err != nil {
			return nil // not our problem: the build will report it
		}
		changed := false
		hasShim := false
		for _, imp := range f.Imports {
			switch imp.Path.Value {
			case `"sync"`:
				imp.Path.Value = strconv.Quote(shimImport)
				if imp.Name == nil {
					imp.Name = ast.NewIdent("sync")
				}
				changed = true
			case `"sync/atomic"`:
				imp.Path.Value = strconv.Quote(atomicImport)
				if imp.Name == nil {
					imp.Name = ast.NewIdent("atomic")
				}
				changed = true
			}
		}
		if fp {
			for _, decl := range f.Decls {
				fd, ok := decl.(*ast.FuncDecl)
				if !ok || fd.Body == nil {
					continue
				}
				label := filepath.ToSlash(rel) + ":" + fd.Name.Name
				call := &ast.ExprStmt{X: &ast.CallExpr{
					Fun:  &ast.SelectorExpr{X: ast.NewIdent("verifsyncpoint"), Sel: ast.NewIdent("Point")},
					Args: []ast.Expr{&ast.BasicLit{Kind: token.STRING, Value: strconv.Quote(label)}},
				}}
				fd.Body.List = append([]ast.Stmt{call}, fd.Body.List...)
				npoints++
				changed = true
				hasShim = true
			}
		}
		if !changed {
			return nil
		}
		var buf bytes.Buffer
		if err := printer.Fprint(&buf, fset, f); err != nil {
			return nil
		}
		out := buf.String()
		if hasShim {
			// add the import right after the package clause (textually: the AST
			// import list may be a single-line form)
			loc := pkgClause.FindStringIndex(out)
			if loc == nil {
				return nil
			}
			out = out[:loc[1]] + "\nimport verifsyncpoint " + strconv.Quote(shimImport) + "\n" + out[loc[1]:]
		}
		dst := filepath.Join(ovDir, rel)
		os.MkdirAll(filepath.Dir(dst), 0o755)
		if err := os.WriteFile(dst, []byte(out), 0o644); err != nil {
			return err
		}
		replace[path] = dst
		return nil
	})
	if err != nil {
		return "", 0, err
	}
	b, _ := json.MarshalIndent(map[string]any{"Replace": replace}, "", " ")
	name := "overlay.json"
	if !funcs {
		name = "overlay-locks.json"
	}
	ov := filepath.Join(workDir, name)
	return ov, npoints, os.WriteFile(ov, b, 0o644)
}

// buildSched builds the explorer; on failure with function-entry points it
// falls back to lock points only; on failure again the exploration is skipped
// (instrumentation trouble is never an alarm).
func buildSched() {
	buildOnce.Do(func() {
		initOnce.Do(initPaths)
		bin := filepath.Join(workDir, "c17sched")
		for _, funcs := range []bool{true, false} {
			ov, n, err := genOverlay(funcs)
			if err != nil {
				schedErr = err.Error()
				continue
			}
			out, err := runGo("build", "-tags", "verifsched", "-overlay", ov, "-o", bin, "./checks/c17/sched")
			if err == nil {
				schedBin = bin
				funcPoints = funcs
				schedErr = ""
				counters.Add("instrumented_function_entries", int64(n))
				return
			}
			schedErr = out
			fmt.Fprintf(os.Stderr, "C17: building the explorer (function points=%v) failed:\n%s\n", funcs, out)
		}
	})
}

var counters engine.Counter

func gen(tier string, emit func(engine.Case) bool) {
	shards := 4
	if tier == "thorough" {
		shards = 16
	}
	for _, d := range drivers.All() {
		bound := d.QuickBound
		if tier == "thorough" {
			bound = d.ThoroughBound
		}
		n := shards
		if d.Threads == 2 && tier != "thorough" {
			n = 2
		}
		for s := 0; s < n; s++ {
			shard := fmt.Sprintf("%d/%d", s, n)
			if !emit(engine.Case{ID: fmt.Sprintf("%s/k%d/%s", d.Name, bound, shard), Data: Data{Kind: "sched", Driver: d.Name, Threads: d.Threads, Bound: bound, Shard: shard, Doc: d.Doc}}) {
				return
			}
		}
	}
}

func judge(c engine.Case) engine.Outcome {
	d := c.Data.(Data)
	if d.Kind == "race" {
		if out := racePass(d.Driver, 200); out != "" {
			return engine.Fail("race", "%s", out)
		}
		return engine.Pass("")
	}
	buildSched()
	if schedBin == "" {
		counters.Add("explorer_build_failed", 1)
		return engine.Skip()
	}
	args := []string{"-driver", d.Driver, "-bound", strconv.Itoa(d.Bound), "-shard", d.Shard}
	if d.Schedule != nil {
		var ss []string
		for _, x := range d.Schedule {
			ss = append(ss, strconv.Itoa(x))
		}
		args = []string{"-driver", d.Driver, "-schedule", strings.Join(ss, ","), "once"}
		if len(ss) == 0 {
			args = []string{"-driver", d.Driver, "once"}
		}
	}
	cmd := exec.Command(schedBin, args...)
	cmd.Env = append(os.Environ(), "GOMAXPROCS=2")
	var stdout, stderr bytes.Buffer
	cmd.Stdout, cmd.Stderr = &stdout, &stderr
	err := cmd.Run()
	var rep report
	if jerr := json.Unmarshal(stdout.Bytes(), &rep); jerr != nil {
		// the explorer process died: a Go fatal error (e.g. concurrent map
		// access cannot happen under the cooperative scheduler, but stack
		// exhaustion or an os.Exit can) in the code under test
		msg := stderr.String()
		if len(msg) > 3000 {
			msg = msg[:3000]
		}
		return engine.Fail("c17."+base(d.Driver)+".explorer-crash", "explorer for %s exited abnormally (%v):\n%s", d.Driver, err, msg)
	}
	executions.Add(rep.Executions)
	points.Add(rep.Points)
	divergences.Add(rep.Divergences)
	for {
		m := maxPoints.Load()
		if int64(rep.MaxPoints) <= m || maxPoints.CompareAndSwap(m, int64(rep.MaxPoints)) {
			break
		}
	}
	for {
		m := maxPre.Load()
		if int64(rep.MaxPreemptions) <= m || maxPre.CompareAndSwap(m, int64(rep.MaxPreemptions)) {
			break
		}
	}
	if !rep.Exhaustive {
		capped.Store(true)
	}
	for _, l := range rep.Labels {
		labelSet.Store(l, true)
	}
	key := d.Driver
	cur, _ := perDriver.LoadOrStore(key, &[3]int64{})
	arr := cur.(*[3]int64)
	atomic.AddInt64(&arr[0], rep.Executions)
	atomic.AddInt64(&arr[1], rep.Points)
	for {
		o := atomic.LoadInt64(&arr[2])
		if int64(rep.DistinctOutcome) <= o || atomic.CompareAndSwapInt64(&arr[2], o, int64(rep.DistinctOutcome)) {
			break
		}
	}
	if len(rep.Failures) > 0 {
		f := rep.Failures[0]
		lastFail.Store(c.ID, f)
		return engine.Fail("c17."+base(d.Driver)+"."+f.Kind, "driver %s (%s)\nschedule (choice at each scheduling point; trailing zeros omitted): %v\n%s", d.Driver, d.Doc, f.Schedule, f.Detail)
	}
	return engine.Pass(fmt.Sprintf("%s:%s:%d", d.Driver, d.Shard, rep.Executions))
}

func base(driver string) string {
	if i := strings.Index(driver, "-"); i > 0 {
		return strings.ToLower(driver[:i])
	}
	return driver
}

// shrink: replace the shard by exactly the failing schedule.
func shrink(c engine.Case) []engine.Case {
	d := c.Data.(Data)
	if d.Kind != "sched" || d.Schedule != nil {
		return nil
	}
	if f, ok := lastFail.Load(c.ID); ok {
		nd := d
		nd.Schedule = append([]int{}, f.(failure).Schedule...)
		if nd.Schedule == nil {
			nd.Schedule = []int{}
		}
		return []engine.Case{{ID: c.ID + "/schedule", Data: nd}}
	}
	return nil
}

var raceBuild sync.Once
var raceBin, raceErr string

// racePass runs the free-running -race binary; returns a description of any race or mismatch.
func racePass(driver string, rounds int) string {
	raceBuild.Do(func() {
		initOnce.Do(initPaths)
		bin := filepath.Join(workDir, "c17race")
		out, err := runGo("build", "-race", "-o", bin, "./checks/c17/race")
		if err != nil {
			raceErr = out
			fmt.Fprintf(os.Stderr, "C17: building the race pass failed:\n%s\n", out)
			return
		}
		raceBin = bin
	})
	if raceBin == "" {
		counters.Add("race_build_failed", 1)
		return ""
	}
	args := []string{"-rounds", strconv.Itoa(rounds)}
	if driver != "" {
		args = append(args, "-driver", driver)
	}
	cmd := exec.Command(raceBin, args...)
	cmd.Env = append(os.Environ(), "GORACE=halt_on_error=0 exitcode=66")
	var out bytes.Buffer
	cmd.Stdout, cmd.Stderr = &out, &out
	err := cmd.Run()
	s := out.String()
	counters.Add("race_pass_runs", 1)
	if strings.Contains(s, "WARNING: DATA RACE") || strings.Contains(s, "MISMATCH") || strings.Contains(s, "fatal error:") {
		if len(s) > 6000 {
			s = s[:6000]
		}
		return s
	}
	if err != nil && !strings.Contains(s, "rounds ok") {
		return "race pass exited abnormally: " + err.Error() + "\n" + s
	}
	return ""
}

var initOnce sync.Once

func pre(tier string) []engine.Violation {
	initOnce.Do(initPaths)
	rounds := 200
	if tier == "thorough" {
		rounds = 2000
	}
	var out []engine.Violation
	// one invocation per driver so that a report names the driver
	var mu sync.Mutex
	var wg sync.WaitGroup
	sem := make(chan struct{}, 8)
	racePass("D1-fullsplat-2", 1) // builds the binary once
	for _, d := range drivers.All() {
		wg.Add(1)
		go func(d drivers.Driver) {
			defer wg.Done()
			sem <- struct{}{}
			defer func() { <-sem }()
			if s := racePass(d.Name, rounds); s != "" {
				mu.Lock()
				out = append(out, engine.Violation{
					Case:    engine.Case{ID: "race/" + d.Name, Data: Data{Kind: "race", Driver: d.Name, Threads: d.Threads, Doc: d.Doc}},
					Outcome: engine.Outcome{V: engine.Viol, Class: "race", Detail: "free-running -race pass, driver " + d.Name + ":\n" + s},
				})
				mu.Unlock()
			}
		}(d)
	}
	wg.Wait()
	if len(out) > 1 {
		out = out[:1]
	}
	return out
}

func main() {
	engine.Main(&engine.Check{
		ID:        "C17",
		Title:     "A parsed configuration can be evaluated concurrently",
		Technique: "systematic schedule exploration (preemption-bounded depth-first search under a controlled cooperative scheduler) of the real code with its sync operations and function entries as scheduling points; separate free-running -race pass",
		Rule: "drivers D1-D19 (one shared parsed expression/body/schema/spec/function table, 2-3 goroutines with their own EvalContext and goroutine-specific contents): full / nested / attribute splats, splat over an unknown list, splat inside for and template, child contexts of a shared parent, JSON expression, Content / PartialContent / JustAttributes / Variables / dynblock.Expand + hcldec.Decode on native, JSON and merged bodies, call expansion, front ends and writer on unrelated inputs, nil contexts, one schema on dynblock remainders, shared remainder bodies, JSON array forms, one shared hcldec spec with Transform/Default/Validate/Refine wrappers on goroutine-specific bodies, user-defined functions, expressions parsed with recovered syntax errors, static-analysis views interleaved with evaluation. " +
			"Every schedule with at most k preemptions (k=2 quick, k=3 thorough) is executed, sharded over the top-level branches; each goroutine's (value, diagnostics) must equal the result of the same call run alone, no deadlock/panic, and a solo call afterwards gives the solo result. states = executions (complete schedules), transitions = scheduling decisions taken; every trace is executed on the implementation. A case = one (driver, shard); distinct = distinct (driver, shard, executions).",
		Assumptions: []string{"memory-model effects and unsynchronised accesses are invisible to a cooperative scheduler; they are delegated to the free-running -race pass (200 rounds per driver, 2000 thorough), which is not counted as model checking", "goroutine counts 2-3 only"},
		Gen:         gen,
		Judge:       judge,
		Load:        engine.LoadAs[Data],
		Shrink:      shrink,
		Pre:         pre,
		Workers:     16,
		HangLimit:   45 * time.Minute,
		States: func() (int64, int64, int64) {
			return executions.Load(), points.Load(), executions.Load()
		},
		Extra: func() map[string]any {
			m := map[string]any{
				"max_points_in_one_execution": maxPoints.Load(),
				"max_preemptions_completed":   maxPre.Load(),
				"replay_divergences":          divergences.Load(),
				"function_entry_points":       funcPoints,
				"lock_points":                 schedBin != "",
				"execution_cap_hit":           capped.Load(),
			}
			per := map[string]any{}
			perDriver.Range(func(k, v any) bool {
				a := v.(*[3]int64)
				per[k.(string)] = map[string]int64{"executions": a[0], "points": a[1], "distinct_outcomes": a[2]}
				return true
			})
			m["per_driver"] = per
			n := 0
			labelSet.Range(func(k, v any) bool { n++; return true })
			m["distinct_point_labels"] = n
			for k, v := range counters.Snapshot() {
				m[k] = v
			}
			if schedErr != "" {
				m["explorer_build_error"] = schedErr
			}
			return m
		},
		QuickBudget:    8 * time.Minute,
		ThoroughBudget: 60 * time.Minute,
	})
}
