// Package drivers holds the small concurrent scenarios of check C17. Each
// driver builds one shared parsed object and gives every goroutine its own
// evaluation context (with goroutine-specific contents, so that any
// cross-talk changes a result). The same bodies are run (a) under the
// controlled scheduler, (b) free-running under the race detector.
package drivers

import (
	"fmt"
	"sort"
	"strings"

	"github.com/hashicorp/hcl/v2"
	"github.com/hashicorp/hcl/v2/ext/dynblock"
	"github.com/hashicorp/hcl/v2/ext/userfunc"
	"github.com/hashicorp/hcl/v2/hcldec"
	"github.com/hashicorp/hcl/v2/hclsyntax"
	"github.com/hashicorp/hcl/v2/hclwrite"
	hcljson "github.com/hashicorp/hcl/v2/json"
	"github.com/zclconf/go-cty/cty"
	"github.com/zclconf/go-cty/cty/function"

	"verif/vfmt"
)

type expandedGroups struct {
	blocks hcl.Blocks
	ctx    *hcl.EvalContext
}

type Driver struct {
	Name    string
	Doc     string
	Threads int
	// Points selects which function entries are scheduling points besides
	// the lock operations: "all" or "struct" (body / structure / decoding level only).
	Points string
	// preemption bounds per tier
	QuickBound, ThoroughBound int
	Setup                     func() any
	Thread                    func(shared any, i int) string
}

func num(i int) cty.Value { return cty.NumberIntVal(int64(i)) }

// list of objects whose contents depend on the goroutine index
func objs(i int) cty.Value {
	mk := func(a int, b ...int) cty.Value {
		var bs []cty.Value
		for _, x := range b {
			bs = append(bs, num(x))
		}
		return cty.ObjectVal(map[string]cty.Value{"a": num(a), "b": cty.ListVal(bs)})
	}
	return cty.ListVal([]cty.Value{mk(100*i+1, 100*i+11, 100*i+12), mk(100*i+2, 100*i+21)})
}

var joinFn = function.New(&function.Spec{
	Params: []function.Parameter{{Name: "l", Type: cty.DynamicPseudoType}},
	Type:   function.StaticReturnType(cty.String),
	Impl: func(args []cty.Value, _ cty.Type) (cty.Value, error) {
		var sb strings.Builder
		for it := args[0].ElementIterator(); it.Next(); {
			_, v := it.Element()
			sb.WriteString(v.AsBigFloat().String() + ",")
		}
		return cty.StringVal(sb.String()), nil
	},
})

// joinVarFn is variadic: join(a, b, ...)
var joinVarFn = function.New(&function.Spec{
	VarParam: &function.Parameter{Name: "xs", Type: cty.Number},
	Type:     function.StaticReturnType(cty.String),
	Impl: func(args []cty.Value, _ cty.Type) (cty.Value, error) {
		var sb strings.Builder
		for _, v := range args {
			sb.WriteString(v.AsBigFloat().String() + ",")
		}
		return cty.StringVal(sb.String()), nil
	},
})

func ctxFor(i int) *hcl.EvalContext {
	return &hcl.EvalContext{Functions: map[string]function.Function{"join": joinFn}, Variables: map[string]cty.Value{
		"l": objs(i),
		"n": num(1000 * (i + 1)),
		"s": cty.StringVal(fmt.Sprintf("s%d", i)),
		"m": cty.MapVal(map[string]cty.Value{"k": num(i), fmt.Sprintf("k%d", i): num(i)}),
	}}
}

func show(v cty.Value, diags hcl.Diagnostics) string {
	var ds []string
	for _, d := range diags {
		line := fmt.Sprintf("%d:%s:%s", d.Severity, d.Summary, d.Detail)
		// what the diagnostic's own evaluation context holds (innermost level): names and values
		if d.EvalContext != nil {
			var names []string
			for n, val := range d.EvalContext.Variables {
				names = append(names, n+"="+vfmt.V(val))
			}
			sort.Strings(names)
			line += " ctx{" + strings.Join(names, ",") + "}"
		}
		ds = append(ds, line)
	}
	sort.Strings(ds)
	return vfmt.V(v) + " | " + strings.Join(ds, ";")
}

func mustExpr(src string) hclsyntax.Expression {
	e, diags := hclsyntax.ParseExpression([]byte(src), "t.hcl", hcl.InitialPos)
	if diags.HasErrors() {
		panic("driver source does not parse: " + src + ": " + diags.Error())
	}
	return e
}

func exprDriver(name, doc, src string, threads int, mkctx func(i int) *hcl.EvalContext) Driver {
	return Driver{Name: name, Doc: doc + ": " + src, Threads: threads,
		Setup: func() any { return mustExpr(src) },
		Thread: func(shared any, i int) string {
			e := shared.(hclsyntax.Expression)
			v, diags := e.Value(mkctx(i))
			vars := e.Variables()
			return show(v, diags) + fmt.Sprintf(" | vars=%d", len(vars))
		}}
}

const bodySrc = `
a = l[*].a
b = "${s}-${n}"
blk "x" {
  v = [for o in l : o.b[*]]
}
blk "y" {
  v = m.k
}
dynamic "gen" {
  for_each = l[*].a
  content {
    v = gen.value + n
  }
}
`

const jsonBodySrc = `{"a": "${l[*].a}", "b": "${s}-${n}", "blk": {"x": {"v": "${[for o in l : o.b[*]]}"}, "y": {"v": "${m.k}"}},
 "dynamic": {"gen": {"for_each": "${l[*].a}", "content": {"v": "${gen.value + n}"}}}}`

var bodySpec = hcldec.ObjectSpec{
	"a":   &hcldec.AttrSpec{Name: "a", Type: cty.DynamicPseudoType},
	"b":   &hcldec.AttrSpec{Name: "b", Type: cty.String},
	"blk": &hcldec.BlockMapSpec{TypeName: "blk", LabelNames: []string{"name"}, Nested: hcldec.ObjectSpec{"v": &hcldec.AttrSpec{Name: "v", Type: cty.String}}},
	"gen": &hcldec.BlockListSpec{TypeName: "gen", Nested: hcldec.ObjectSpec{"v": &hcldec.AttrSpec{Name: "v", Type: cty.Number}}},
}

var bodySpecDyn = hcldec.ObjectSpec{
	"a":   &hcldec.AttrSpec{Name: "a", Type: cty.DynamicPseudoType},
	"blk": &hcldec.BlockTupleSpec{TypeName: "blk", Nested: hcldec.ObjectSpec{"v": &hcldec.AttrSpec{Name: "v", Type: cty.DynamicPseudoType}, "name": &hcldec.BlockLabelSpec{Index: 0, Name: "name"}}},
	"gen": &hcldec.BlockListSpec{TypeName: "gen", Nested: hcldec.ObjectSpec{"v": &hcldec.AttrSpec{Name: "v", Type: cty.Number}}},
}

func contentDump(c *hcl.BodyContent, diags hcl.Diagnostics) string {
	var parts []string
	var names []string
	for n := range c.Attributes {
		names = append(names, n)
	}
	sort.Strings(names)
	parts = append(parts, "attrs="+strings.Join(names, ","))
	for _, b := range c.Blocks {
		parts = append(parts, b.Type+"("+strings.Join(b.Labels, ",")+")")
	}
	parts = append(parts, fmt.Sprintf("errs=%v n=%d", diags.HasErrors(), len(diags)))
	return strings.Join(parts, " ")
}

var schemaFull = &hcl.BodySchema{
	Attributes: []hcl.AttributeSchema{{Name: "a"}, {Name: "b"}},
	Blocks:     []hcl.BlockHeaderSchema{{Type: "blk", LabelNames: []string{"name"}}, {Type: "dynamic", LabelNames: []string{"type"}}},
}
var schemaPart = &hcl.BodySchema{
	Attributes: []hcl.AttributeSchema{{Name: "a"}},
	Blocks:     []hcl.BlockHeaderSchema{{Type: "blk", LabelNames: []string{"name"}}},
}

// bodyThread: a mix of content extraction, variable analysis, expansion and decoding.
func bodyThread(body hcl.Body, i int) string {
	ctx := ctxFor(i)
	var out []string
	switch i % 3 {
	case 0:
		c, d := body.Content(schemaFull)
		out = append(out, "content: "+contentDump(c, d))
		for _, n := range []string{"a", "b"} {
			if at := c.Attributes[n]; at != nil {
				v, vd := at.Expr.Value(ctx)
				out = append(out, n+"="+show(v, vd))
			}
		}
	case 1:
		c, rem, d := body.PartialContent(schemaPart)
		out = append(out, "partial: "+contentDump(c, d))
		c2, _, d2 := rem.PartialContent(&hcl.BodySchema{Attributes: []hcl.AttributeSchema{{Name: "b"}}})
		out = append(out, "rest: "+contentDump(c2, d2))
		for _, b := range c.Blocks {
			attrs, ad := b.Body.JustAttributes()
			for n, at := range attrs {
				v, vd := at.Expr.Value(ctx)
				out = append(out, b.Labels[0]+"."+n+"="+show(v, vd)+fmt.Sprint(ad.HasErrors()))
			}
		}
		sort.Strings(out[2:])
	case 2:
		vars := hcldec.Variables(body, bodySpecDyn)
		out = append(out, fmt.Sprintf("vars=%d", len(vars)))
	}
	exp := dynblock.Expand(body, ctx)
	v, d := hcldec.Decode(exp, bodySpecDyn, ctx)
	out = append(out, "decode: "+show(v, d))
	dv := dynblock.VariablesHCLDec(body, bodySpecDyn)
	out = append(out, fmt.Sprintf("dynvars=%d", len(dv)))
	return strings.Join(out, "\n")
}

func mustBody(src string, json bool) hcl.Body {
	if json {
		f, diags := hcljson.Parse([]byte(src), "t.json")
		if diags.HasErrors() {
			panic(diags.Error())
		}
		return f.Body
	}
	f, diags := hclsyntax.ParseConfig([]byte(src), "t.hcl", hcl.InitialPos)
	if diags.HasErrors() {
		panic(diags.Error())
	}
	return f.Body
}

type sharedFuncs struct {
	funcs map[string]function.Function
	e     hclsyntax.Expression
}

type sharedSchema struct {
	sch  *hcl.BodySchema
	body hcl.Body
}

type sharedParent struct {
	e      hclsyntax.Expression
	parent *hcl.EvalContext
}

// All returns every driver.
func All() []Driver {
	unknownFor0 := func(i int) *hcl.EvalContext {
		c := ctxFor(i)
		if i == 0 {
			c.Variables["l"] = cty.UnknownVal(objs(0).Type())
		}
		return c
	}
	var ds []Driver
	for _, th := range []int{2, 3} {
		t := fmt.Sprint(th)
		ds = append(ds,
			exprDriver("D1-fullsplat-"+t, "full splat on one shared expression", "l[*].a", th, ctxFor),
			exprDriver("D2-nestedsplat-"+t, "nested full splats", "l[*].b[*]", th, ctxFor),
			exprDriver("D3-attrsplat-"+t, "attribute splat with legacy index", "l.*.b.0", th, ctxFor),
			exprDriver("D4-unknownsplat-"+t, "splat over an unknown list in one goroutine (result type probing under a child context)", "l[*].b[*]", th, unknownFor0),
			exprDriver("D5-splat-in-for-template-"+t, "splat inside for and template", `[for x in l[*].a : "${x + n}-${join(l[*].a)}"]`, th, func(i int) *hcl.EvalContext {
				c := ctxFor(i)
				return c
			}),
		)
	}
	// D21: one goroutine's source is an empty list (the splat item is cleared without ever
	// having been set), the other's is not
	emptyFor0 := func(i int) *hcl.EvalContext {
		c := ctxFor(i)
		if i == 0 {
			c.Variables["l"] = cty.ListValEmpty(objs(0).Type().ElementType())
		}
		return c
	}
	ds = append(ds,
		exprDriver("D21-emptysplat-2", "splat over an empty list in one goroutine and over a non-empty list in the other", "l[*].a", 2, emptyFor0),
		exprDriver("D21-emptysplat-3", "the same with three goroutines", "[l[*].a, l[*].b[*]]", 3, emptyFor0),
	)
	// D10: function call with an expanded final argument on one shared expression
	ds = append(ds,
		exprDriver("D10-call-expansion-2", "call with expansion of a splat result, evaluated concurrently and once per for element", `[join(l[*].a...), [for o in l : join(o.b...)]]`, 2, func(i int) *hcl.EvalContext {
			c := ctxFor(i)
			c.Functions["join"] = joinVarFn
			return c
		}),
	)
	// D11: front ends and the writer on different inputs at the same time (no shared object at all:
	// any cross-talk comes from package-level state)
	ds = append(ds, Driver{Name: "D11-frontends-3", Doc: "hclwrite.Format, hclwrite.ParseConfig+Bytes and hclsyntax.ParseConfig+evaluate on goroutine-specific sources", Threads: 3, Points: "struct",
		Setup: func() any { return nil },
		Thread: func(_ any, i int) string {
			src := []byte(fmt.Sprintf("a%d   =   [ %d,\"s%d\" ]\nblk \"l%d\" {\n x=l[*].a\n   y = \"${s}-%d\"\n}\n", i, i, i, i, i))
			var out []string
			for r := 0; r < 3; r++ {
				f1 := hclwrite.Format(src)
				wf, d := hclwrite.ParseConfig(src, "t.hcl", hcl.InitialPos)
				var b2 []byte
				if wf != nil {
					b2 = wf.Bytes()
				}
				out = append(out, string(f1), string(b2), fmt.Sprint(d.HasErrors()))
				if string(hclwrite.Format(f1)) != string(f1) {
					out = append(out, "not idempotent")
				}
			}
			body := mustBody(string(src), false)
			attrs, _, _ := body.PartialContent(&hcl.BodySchema{Attributes: []hcl.AttributeSchema{{Name: fmt.Sprintf("a%d", i)}}})
			for _, at := range attrs.Attributes {
				v, vd := at.Expr.Value(ctxFor(i))
				out = append(out, show(v, vd))
			}
			return strings.Join(out, "\n")
		}})
	// D12: a splat over a constant collection evaluated with a nil EvalContext by every goroutine
	// (each evaluation has to get its own placeholder context)
	for _, th := range []int{2, 3} {
		th := th
		ds = append(ds, Driver{Name: fmt.Sprintf("D12-nil-context-%d", th), Doc: "constant splats evaluated with a nil EvalContext: [{id=1},{id=2},{id=3}][*].id, nested and attribute forms", Threads: th,
			Setup: func() any {
				return mustExpr(`[[{id = 1}, {id = 2}, {id = 3}][*].id, [[{b = 1}], [{b = 2}]][*][*].b]`)
			},
			Thread: func(shared any, i int) string {
				e := shared.(hclsyntax.Expression)
				v, diags := e.Value(nil)
				return show(v, diags)
			}})
	}
	// D6: contexts that are children of one shared parent
	ds = append(ds, Driver{Name: "D6-shared-parent-3", Doc: "child contexts of one shared parent context: l[*].a + n", Threads: 3,
		Setup: func() any {
			return &sharedParent{e: mustExpr("[l[*].a, n, l.*.b.0]"), parent: ctxFor(7)}
		},
		Thread: func(shared any, i int) string {
			sp := shared.(*sharedParent)
			child := sp.parent.NewChild()
			child.Variables = map[string]cty.Value{"n": num(i)}
			if i == 1 {
				child.Variables["l"] = objs(5)
			}
			v, d := sp.e.Value(child)
			return show(v, d)
		}})
	// D7: the same through the JSON syntax (each evaluation parses the template afresh)
	ds = append(ds, Driver{Name: "D7-json-expr-2", Doc: "JSON string expression ${l[*].a} (negative control: no shared splat state)", Threads: 2,
		Setup: func() any {
			e, diags := hcljson.ParseExpression([]byte(`["${l[*].a}", {"${s}": "${l[*].b[*]}"}]`), "t.json")
			if diags.HasErrors() {
				panic(diags.Error())
			}
			return e
		},
		Thread: func(shared any, i int) string {
			e := shared.(hcl.Expression)
			v, d := e.Value(ctxFor(i))
			return show(v, d) + fmt.Sprintf(" | vars=%d", len(e.Variables()))
		}})
	// D8: bodies
	ds = append(ds,
		Driver{Name: "D8-native-body-3", Doc: "Content / PartialContent / JustAttributes / Variables / dynblock.Expand + hcldec.Decode on one native body", Threads: 3,
			Setup:  func() any { return mustBody(bodySrc, false) },
			Thread: func(shared any, i int) string { return bodyThread(shared.(hcl.Body), i) }},
		Driver{Name: "D8-native-body-2", Doc: "same, two goroutines", Threads: 2,
			Setup:  func() any { return mustBody(bodySrc, false) },
			Thread: func(shared any, i int) string { return bodyThread(shared.(hcl.Body), i) }},
		Driver{Name: "D8-json-body-3", Doc: "the same operations on one JSON body", Threads: 3,
			Setup:  func() any { return mustBody(jsonBodySrc, true) },
			Thread: func(shared any, i int) string { return bodyThread(shared.(hcl.Body), i) }},
		Driver{Name: "D8-merged-body-2", Doc: "the same operations on one merged (native + JSON) body", Threads: 2,
			Setup: func() any {
				return hcl.MergeBodies([]hcl.Body{mustBody("a = l[*].a\nblk \"x\" {\n  v = n\n}\n", false), mustBody(`{"b": "${s}-${n}", "blk": {"y": {"v": "${m.k}"}}}`, true)})
			},
			Thread: func(shared any, i int) string { return bodyThread(shared.(hcl.Body), i) }},
		Driver{Name: "D9-decode-same-spec-3", Doc: "hcldec.Decode of one body with one spec from three goroutines", Threads: 3,
			Setup: func() any {
				return mustBody("a = l[*].a\nb = s\nblk \"x\" {\n  v = n\n}\nblk \"y\" {\n  v = l.*.a.0\n}\n", false)
			},
			Thread: func(shared any, i int) string {
				v, d := hcldec.Decode(shared.(hcl.Body), bodySpec, ctxFor(i))
				return show(v, d)
			}},
	)
	// D13: one schema value (Blocks built by append, so with spare capacity, as hcldec.ImpliedSchema
	// and gohcl.ImpliedBodySchema build theirs) used by every goroutine on its own dynblock-expanded
	// remainder body; the remainders hide different block types.
	ds = append(ds, Driver{Name: "D13-shared-schema-dynblock-remain-3", Doc: "one *hcl.BodySchema (Blocks with spare capacity) passed to Content of goroutine-specific dynblock remainder bodies that hide different block types", Threads: 3,
		Setup: func() any {
			sch := &hcl.BodySchema{Attributes: []hcl.AttributeSchema{{Name: "a"}}}
			sch.Blocks = make([]hcl.BlockHeaderSchema, 0, 8)
			sch.Blocks = append(sch.Blocks, hcl.BlockHeaderSchema{Type: "common"})
			return &sharedSchema{sch: sch, body: mustBody("a = n\ncommon {\n}\np0 {\n}\np1 {\n}\np2 {\n}\np0 {\n}\ndynamic \"common\" {\n  for_each = l[*].a\n  content {\n  }\n}\n", false)}
		},
		Thread: func(shared any, i int) string {
			sh := shared.(*sharedSchema)
			exp := dynblock.Expand(sh.body, ctxFor(i))
			var hide hcl.BodySchema
			for j := 0; j < 3; j++ {
				// goroutine i extracts every pN first, in an order of its own, so that the
				// remainder hides all of them but registers them in a different order
				hide.Blocks = append(hide.Blocks, hcl.BlockHeaderSchema{Type: fmt.Sprintf("p%d", (i+j)%3)})
			}
			c1, rem, d1 := exp.PartialContent(&hide)
			c2, d2 := rem.Content(sh.sch)
			c3, _, d3 := rem.PartialContent(sh.sch)
			return "first: " + contentDump(c1, d1) + "\nrest: " + contentDump(c2, d2) + "\nrest-partial: " + contentDump(c3, d3) + fmt.Sprintf("\nschema: %d blocks", len(sh.sch.Blocks))
		}})
	// D14: one remainder body (the result of an earlier PartialContent) shared by every goroutine
	for _, js := range []bool{false, true} {
		js := js
		name, src := "D14-shared-remain-native-3", "a = n\nb = s\nblk \"x\" {\n  v = n\n}\nblk \"y\" {\n  v = s\n}\nother {\n}\n"
		if js {
			name, src = "D14-shared-remain-json-3", `{"a": "${n}", "b": "${s}", "blk": {"x": {"v": "${n}"}, "y": {"v": "${s}"}}, "other": {}}`
		}
		ds = append(ds, Driver{Name: name, Doc: "Content / PartialContent / JustAttributes on one shared remainder body (result of an earlier PartialContent that consumed attribute a)", Threads: 3,
			Setup: func() any {
				_, rem, _ := mustBody(src, js).PartialContent(&hcl.BodySchema{Attributes: []hcl.AttributeSchema{{Name: "a"}}})
				return rem
			},
			Thread: func(shared any, i int) string {
				rem := shared.(hcl.Body)
				blkOnly := &hcl.BodySchema{Blocks: []hcl.BlockHeaderSchema{{Type: "blk", LabelNames: []string{"name"}}}}
				var out []string
				switch i {
				case 0:
					c, r2, d := rem.PartialContent(blkOnly)
					out = append(out, "blk: "+contentDump(c, d))
					c, d = r2.Content(&hcl.BodySchema{Attributes: []hcl.AttributeSchema{{Name: "b"}}, Blocks: []hcl.BlockHeaderSchema{{Type: "other"}}})
					out = append(out, "then: "+contentDump(c, d))
				case 1:
					c, _, d := rem.PartialContent(&hcl.BodySchema{Attributes: []hcl.AttributeSchema{{Name: "zz"}}, Blocks: []hcl.BlockHeaderSchema{{Type: "blk", LabelNames: []string{"name"}}, {Type: "other"}}})
					out = append(out, "blk+other: "+contentDump(c, d))
				default:
					c, d := rem.Content(&hcl.BodySchema{Attributes: []hcl.AttributeSchema{{Name: "b"}}, Blocks: []hcl.BlockHeaderSchema{{Type: "blk", LabelNames: []string{"name"}}, {Type: "other"}}})
					out = append(out, "all: "+contentDump(c, d))
					for _, b := range c.Blocks {
						attrs, _ := b.Body.JustAttributes()
						for n, at := range attrs {
							v, vd := at.Expr.Value(ctxFor(i))
							out = append(out, b.Type+"."+n+"="+show(v, vd))
						}
					}
				}
				c, _, d := rem.PartialContent(blkOnly)
				out = append(out, "again: "+contentDump(c, d))
				return strings.Join(out, "\n")
			}})
	}
	// D20: the blocks generated by one dynblock expansion (for_each values with different marks on
	// two nesting levels) shared by the goroutines: one evaluates an attribute of the first generated
	// block, one extracts the content of the second (which expands its nested dynamic block), one
	// evaluates an attribute of the second; the marks of every value are part of the observation
	ds = append(ds, Driver{Name: "D20-expanded-blocks-nested-marks-3", Doc: "blocks generated by one dynblock.Expand (marked for_each on two levels) used from three goroutines: attribute of block 0, content of block 1 incl. its nested dynamic block, attribute of block 1", Threads: 3, Points: "struct",
		Setup: func() any {
			body := mustBody("dynamic \"group\" {\n  for_each = groups\n  content {\n    name = group.value\n    dynamic \"member\" {\n      for_each = members\n      content {\n        id = \"${group.value}-${member.value}\"\n      }\n    }\n  }\n}\n", false)
			ctx := &hcl.EvalContext{Variables: map[string]cty.Value{
				"groups":  cty.ListVal([]cty.Value{cty.StringVal("a"), cty.StringVal("b")}).Mark("from-groups"),
				"members": cty.ListVal([]cty.Value{cty.StringVal("x"), cty.StringVal("y")}).Mark("from-members"),
			}}
			c, diags := dynblock.Expand(body, ctx).Content(&hcl.BodySchema{Blocks: []hcl.BlockHeaderSchema{{Type: "group"}}})
			if diags.HasErrors() || len(c.Blocks) != 2 {
				panic("D20: unexpected expansion: " + diags.Error())
			}
			return &expandedGroups{blocks: c.Blocks, ctx: ctx}
		},
		Thread: func(shared any, i int) string {
			sh := shared.(*expandedGroups)
			nameOnly := &hcl.BodySchema{Attributes: []hcl.AttributeSchema{{Name: "name", Required: true}}}
			ctx := sh.ctx.NewChild()
			var out []string
			name := func(k int) {
				c, _, d := sh.blocks[k].Body.PartialContent(nameOnly)
				if at := c.Attributes["name"]; at != nil {
					v, vd := at.Expr.Value(ctx)
					out = append(out, fmt.Sprintf("group[%d].name=%s", k, show(v, append(d, vd...))))
				}
			}
			switch i {
			case 0:
				name(0)
				name(0)
			case 1:
				v, d := hcldec.Decode(sh.blocks[1].Body, hcldec.ObjectSpec{
					"name": &hcldec.AttrSpec{Name: "name", Type: cty.String, Required: true},
					"members": &hcldec.BlockListSpec{TypeName: "member", Nested: hcldec.ObjectSpec{
						"id": &hcldec.AttrSpec{Name: "id", Type: cty.String, Required: true}}},
				}, ctx)
				out = append(out, "group[1]="+show(v, d))
			default:
				name(1)
				name(0)
			}
			return strings.Join(out, "\n")
		}})
	// D15: JSON bodies in the array-of-objects forms (the body and a label level), several property
	// counts per object: the per-call attribute collection must not write into the parsed tree
	ds = append(ds, Driver{Name: "D15-json-array-forms-3", Doc: "Content / PartialContent / JustAttributes on JSON bodies given as arrays of objects with 1..5 properties in the first object", Threads: 3, Points: "struct",
		Setup: func() any {
			var bodies []hcl.Body
			for n := 1; n <= 5; n++ {
				var props []string
				for k := 0; k < n; k++ {
					props = append(props, fmt.Sprintf(`"a%d": "${n}"`, k))
				}
				bodies = append(bodies, mustBody(`[{`+strings.Join(props, ", ")+`}, {"z": "${s}"}, {"blk": [{"x": [{"v": 1, "w": 2, "u": 3}, {"t": 4}]}, {"y": {"v": 2}}]}]`, true))
			}
			return bodies
		},
		Thread: func(shared any, i int) string {
			var out []string
			for n, body := range shared.([]hcl.Body) {
				sch := &hcl.BodySchema{Attributes: []hcl.AttributeSchema{{Name: "z"}}, Blocks: []hcl.BlockHeaderSchema{{Type: "blk", LabelNames: []string{"name"}}}}
				for k := 0; k <= n; k++ {
					sch.Attributes = append(sch.Attributes, hcl.AttributeSchema{Name: fmt.Sprintf("a%d", k)})
				}
				c, d := body.Content(sch)
				out = append(out, contentDump(c, d))
				if i == 1 {
					pc, _, pd := body.PartialContent(&hcl.BodySchema{Attributes: []hcl.AttributeSchema{{Name: "z"}}})
					out = append(out, contentDump(pc, pd))
				}
				for _, b := range c.Blocks {
					attrs, ad := b.Body.JustAttributes()
					var names []string
					for an := range attrs {
						names = append(names, an)
					}
					sort.Strings(names)
					out = append(out, b.Labels[0]+": "+strings.Join(names, ",")+fmt.Sprint(ad.HasErrors()))
				}
				if at := c.Attributes["z"]; at != nil {
					v, vd := at.Expr.Value(ctxFor(i))
					out = append(out, show(v, vd))
				}
			}
			return strings.Join(out, "\n")
		}})
	// D16: one decoding specification (with every wrapper kind that evaluates something of its own:
	// TransformExprSpec, TransformFuncSpec, DefaultSpec, ValidateSpec, RefineValueSpec) shared by
	// goroutines that decode goroutine-specific bodies
	ds = append(ds, Driver{Name: "D16-shared-spec-own-bodies-3", Doc: "hcldec.Decode / ImpliedType / Variables with one shared spec (Transform*, Default, Validate, Refine wrappers) on goroutine-specific bodies", Threads: 3, Points: "struct",
		Setup: func() any {
			attr := func(n string) hcldec.Spec { return &hcldec.AttrSpec{Name: n, Type: cty.DynamicPseudoType} }
			return hcldec.Spec(hcldec.ObjectSpec{
				"t": &hcldec.TransformExprSpec{Wrapped: attr("a"), Expr: mustExpr(`[v, "${v}-${k}", [for x in [v, v] : x]]`), VarName: "v",
					TransformCtx: &hcl.EvalContext{Variables: map[string]cty.Value{"k": cty.StringVal("K")}}},
				"f": &hcldec.TransformFuncSpec{Wrapped: attr("a"), Func: joinVarFn},
				"d": &hcldec.DefaultSpec{Primary: attr("missing"), Default: attr("a")},
				"c": &hcldec.ValidateSpec{Wrapped: attr("a"), Func: func(v cty.Value) hcl.Diagnostics { return nil }},
				"r": &hcldec.RefineValueSpec{Wrapped: &hcldec.AttrSpec{Name: "a", Type: cty.Number}, Refine: func(b *cty.RefinementBuilder) *cty.RefinementBuilder { return b.NotNull() }},
				"b": &hcldec.BlockListSpec{TypeName: "b", Nested: hcldec.ObjectSpec{
					"t": &hcldec.TransformExprSpec{Wrapped: attr("a"), Expr: mustExpr(`v + 1`), VarName: "v"}}},
			})
		},
		Thread: func(shared any, i int) string {
			spec := shared.(hcldec.Spec)
			body := mustBody(fmt.Sprintf("a = n + %d\nb {\n  a = %d\n}\nb {\n  a = n\n}\n", i, 10*i), false)
			var out []string
			for r := 0; r < 2; r++ {
				v, d := hcldec.Decode(body, spec, ctxFor(i))
				out = append(out, show(v, d))
			}
			out = append(out, hcldec.ImpliedType(spec).FriendlyName(), fmt.Sprintf("vars=%d", len(hcldec.Variables(body, spec))))
			return strings.Join(out, "\n")
		}})
	// D17: functions declared in configuration (ext/userfunc) decoded once and called by every goroutine
	// with goroutine-specific arguments, directly and nested
	ds = append(ds, Driver{Name: "D17-userfunc-3", Doc: "user-defined functions (ext/userfunc) shared through the function table: addone(n) + twice(addone(n))", Threads: 3,
		Setup: func() any {
			body := mustBody("function \"addone\" {\n  params = [x]\n  result = x + 1\n}\nfunction \"twice\" {\n  params = [x]\n  variadic_param = rest\n  result = [x * 2, addone(x), rest]\n}\n", false)
			var funcs map[string]function.Function
			funcs, _, diags := userfunc.DecodeUserFunctions(body, "function", func() *hcl.EvalContext {
				return &hcl.EvalContext{Functions: funcs}
			})
			if diags.HasErrors() {
				panic(diags.Error())
			}
			return &sharedFuncs{funcs: funcs, e: mustExpr(`[addone(n), twice(addone(n), s, n), [for x in l[*].a : twice(x)]]`)}
		},
		Thread: func(shared any, i int) string {
			sf := shared.(*sharedFuncs)
			c := ctxFor(i)
			c.Functions = sf.funcs
			v, d := sf.e.Value(c)
			return show(v, d)
		}})
	// D18: expressions and bodies the parser produced while recovering from syntax errors; the diagnostics
	// an evaluation returns must refer to that evaluation's own context
	ds = append(ds, Driver{Name: "D18-recovered-syntax-3", Doc: "expressions parsed with recoverable errors (l..a, l.[0].a, (n +), unclosed call): every goroutine evaluates them with its own context; returned diagnostics must point at that context", Threads: 3,
		Setup: func() any {
			var es []hcl.Expression
			for _, src := range []string{"l..a", "l.[0].a", "[n, (n +), s]", "join(l[*].a", "l[*]..a", "{a = n, b = }"} {
				e, _ := hclsyntax.ParseExpression([]byte(src), "t.hcl", hcl.InitialPos)
				if e != nil {
					es = append(es, e)
				}
			}
			f, _ := hclsyntax.ParseConfig([]byte("a = l..a\nb = n\nblk {\n  c = s..x\n}\n"), "t.hcl", hcl.InitialPos)
			if f != nil && f.Body != nil {
				if attrs, _ := f.Body.JustAttributes(); attrs != nil {
					var names []string
					for n := range attrs {
						names = append(names, n)
					}
					sort.Strings(names)
					for _, n := range names {
						es = append(es, attrs[n].Expr)
					}
				}
			}
			return es
		},
		Thread: func(shared any, i int) string {
			ctx := ctxFor(i)
			var out []string
			for _, e := range shared.([]hcl.Expression) {
				v, diags := e.Value(ctx)
				own := "own-context"
				for _, d := range diags {
					if d.EvalContext == nil {
						continue
					}
					found := false
					for c := d.EvalContext; c != nil; c = c.Parent() {
						if c == ctx {
							found = true
						}
					}
					if !found {
						own = "FOREIGN-CONTEXT in diagnostic " + d.Summary
					}
				}
				out = append(out, show(v, diags)+" | "+own+fmt.Sprintf(" | vars=%d", len(e.Variables())))
			}
			return strings.Join(out, "\n")
		}})
	// D19: static analysis (traversal / list / map / call views of an expression) interleaved with
	// evaluation of the same shared expressions
	ds = append(ds, Driver{Name: "D19-static-analysis-3", Doc: "hcl.AbsTraversalForExpr / RelTraversalForExpr / ExprList / ExprMap / ExprCall / ExprAsKeyword and Variables on shared expressions (plain references, tuple, object, call, for with failing elements) while other goroutines evaluate them", Threads: 3,
		Setup: func() any {
			var es []hcl.Expression
			for _, src := range []string{"m.k", "l[0].a", "s", "[s, n, m.k]", "{a = s, (s) = n, m.k = 1}", "join(l[*].a)", "[for x in l : x.a.nope]", "[for k, x in m : x + s]"} {
				es = append(es, mustExpr(src))
			}
			je, diags := hcljson.ParseExpression([]byte(`["m.k", {"a": "${s}", "l[0].a": "${n}"}, "${join(l[*].a)}"]`), "t.json")
			if diags.HasErrors() {
				panic(diags.Error())
			}
			return append(es, je)
		},
		Thread: func(shared any, i int) string {
			ctx := ctxFor(i)
			var out []string
			for _, e := range shared.([]hcl.Expression) {
				var line []string
				if i != 1 {
					if t, d := hcl.AbsTraversalForExpr(e); !d.HasErrors() {
						line = append(line, fmt.Sprintf("abs:%s/%d", t.RootName(), len(t)))
					}
					if t, d := hcl.RelTraversalForExpr(e); !d.HasErrors() {
						line = append(line, fmt.Sprintf("rel:%d", len(t)))
					}
					if l, d := hcl.ExprList(e); !d.HasErrors() {
						line = append(line, fmt.Sprintf("list:%d", len(l)))
						for _, x := range l {
							if t, d := hcl.RelTraversalForExpr(x); !d.HasErrors() {
								line = append(line, fmt.Sprintf("el-rel:%d", len(t)))
							}
						}
					}
					if m, d := hcl.ExprMap(e); !d.HasErrors() {
						line = append(line, fmt.Sprintf("map:%d", len(m)))
						for _, kv := range m {
							if t, d := hcl.RelTraversalForExpr(kv.Key); !d.HasErrors() {
								line = append(line, fmt.Sprintf("key-rel:%d", len(t)))
							}
						}
					}
					if c, d := hcl.ExprCall(e); !d.HasErrors() {
						line = append(line, "call:"+c.Name)
					}
					line = append(line, "kw:"+hcl.ExprAsKeyword(e))
				}
				v, d := e.Value(ctx)
				line = append(line, show(v, d), fmt.Sprintf("vars=%d", len(e.Variables())))
				if i == 2 {
					if t, d := hcl.AbsTraversalForExpr(e); !d.HasErrors() {
						tv, td := t.TraverseAbs(ctx)
						line = append(line, "trav:"+show(tv, td))
					}
				}
				out = append(out, strings.Join(line, " "))
			}
			return strings.Join(out, "\n")
		}})
	for i := range ds {
		d := &ds[i]
		body := strings.HasPrefix(d.Name, "D8-") || strings.HasPrefix(d.Name, "D16-") || strings.HasPrefix(d.Name, "D13-") || strings.HasPrefix(d.Name, "D14-") || strings.HasPrefix(d.Name, "D20-") || strings.HasPrefix(d.Name, "D15-") || strings.HasPrefix(d.Name, "D9-") || strings.HasPrefix(d.Name, "D11-")
		if d.Points == "" {
			d.Points = "all"
			if body {
				d.Points = "struct"
			}
		}
		if d.QuickBound == 0 {
			switch {
			case body:
				d.QuickBound, d.ThoroughBound = 1, 2
			case d.Threads == 2:
				d.QuickBound, d.ThoroughBound = 2, 3
			case strings.HasPrefix(d.Name, "D1-") || strings.HasPrefix(d.Name, "D3-"):
				d.QuickBound, d.ThoroughBound = 2, 2
			default:
				d.QuickBound, d.ThoroughBound = 1, 2
			}
		}
	}
	return ds
}

// PointFilter returns the function-entry filter for a Points mode.
func PointFilter(mode string) func(label string) bool {
	if mode != "struct" {
		return nil
	}
	return func(label string) bool {
		for _, p := range []string{"hclsyntax/structure.go", "json/structure.go", "ext/dynblock/", "merged.go", "hcldec/"} {
			if strings.HasPrefix(label, p) {
				return true
			}
		}
		return false
	}
}
