//go:build verifsched

// Command sched is the schedule explorer of check C17. It is built with
// `go build -tags verifsched -overlay ...` so that /repo's "sync" import is the
// verifsync shim, whose operations are scheduling points.
//
//	sched -driver NAME -bound K -shard I/N        explore all schedules with <= K preemptions (one shard of the top-level branches)
//	sched -driver NAME -schedule 0,1,0,...        run exactly one schedule
package main

import (
	"encoding/json"
	"flag"
	"fmt"
	"os"
	"strconv"
	"strings"
	"time"

	"github.com/hashicorp/hcl/v2/verifsync"

	"verif/checks/c17/drivers"
)

type Failure struct {
	Kind     string `json:"kind"`
	Schedule []int  `json:"schedule"`
	Detail   string `json:"detail"`
}

type Report struct {
	Driver          string    `json:"driver"`
	Threads         int       `json:"threads"`
	Bound           int       `json:"bound"`
	Shard           string    `json:"shard"`
	Executions      int64     `json:"executions"`
	Points          int64     `json:"points"`
	MaxPoints       int       `json:"max_points"`
	MaxPreemptions  int       `json:"max_preemptions"`
	DistinctOutcome int       `json:"distinct_outcomes"`
	Divergences     int64     `json:"divergences"`
	Exhaustive      bool      `json:"exhaustive"`
	ReplayChecked   bool      `json:"replay_checked"`
	Failures        []Failure `json:"failures"`
	Labels          []string  `json:"labels,omitempty"`
}

func find(name string) *drivers.Driver {
	for _, d := range drivers.All() {
		if d.Name == name {
			d := d
			return &d
		}
	}
	return nil
}

type explorer struct {
	d        *drivers.Driver
	solo     []string
	bound    int
	rep      *Report
	outcomes map[string]bool
	cap      int64
	start    time.Time
	maxTime  time.Duration
	labels   map[string]bool
}

func (x *explorer) run(prefix []int) verifsync.Exec {
	shared := x.d.Setup()
	fns := make([]func() any, x.d.Threads)
	for i := range fns {
		i := i
		fns[i] = func() any { return x.d.Thread(shared, i) }
	}
	ex := verifsync.Run(fns, prefix)
	x.rep.Executions++
	x.rep.Points += int64(len(ex.Points))
	if len(ex.Points) > x.rep.MaxPoints {
		x.rep.MaxPoints = len(ex.Points)
	}
	for _, p := range ex.Points {
		x.labels[p.Label] = true
	}
	choices := make([]int, len(ex.Points))
	pre := 0
	for i, p := range ex.Points {
		choices[i] = p.Choice
		if p.RunningEnabled && p.Choice != 0 {
			pre++
		}
	}
	if pre > x.rep.MaxPreemptions {
		x.rep.MaxPreemptions = pre
	}
	fail := func(kind, detail string) {
		if len(x.rep.Failures) < 5 {
			x.rep.Failures = append(x.rep.Failures, Failure{Kind: kind, Schedule: trim(choices), Detail: detail})
		}
	}
	if strings.HasPrefix(ex.Failure, "divergence") {
		x.rep.Divergences++
		return ex
	}
	if ex.Failure != "" {
		fail("deadlock", ex.Failure)
		return ex
	}
	var sig strings.Builder
	for i, r := range ex.Results {
		s, _ := r.(string)
		sig.WriteString(s)
		sig.WriteString("\x00")
		if s != x.solo[i] {
			kind := "result-differs"
			if strings.HasPrefix(s, "panic:") {
				kind = "panic"
			}
			fail(kind, fmt.Sprintf("goroutine %d returned\n  %s\nbut the same call run alone returns\n  %s", i, s, x.solo[i]))
			break
		}
	}
	x.outcomes[sig.String()] = true
	// no residue: a solo evaluation on the shared object afterwards still gives the solo result
	if after := safeThread(x.d, shared, 0); after != x.solo[0] {
		fail("residue", fmt.Sprintf("after the concurrent phase goroutine 0's call returns\n  %s\ninstead of\n  %s", after, x.solo[0]))
	}
	return ex
}

func trim(c []int) []int {
	n := len(c)
	for n > 0 && c[n-1] == 0 {
		n--
	}
	return append([]int{}, c[:n]...)
}

func safeThread(d *drivers.Driver, shared any, i int) (s string) {
	defer func() {
		if r := recover(); r != nil {
			s = fmt.Sprintf("panic: %v", r)
		}
	}()
	return d.Thread(shared, i)
}

func (x *explorer) explore(prefix []int, top bool, shard, nshards int) {
	if x.rep.Executions >= x.cap || time.Since(x.start) > x.maxTime {
		// internal budget (executions or wall clock on a loaded machine): stop exploring, report the shard as not exhaustive
		x.rep.Exhaustive = false
		return
	}
	var ex verifsync.Exec
	if !top || shard == 0 {
		ex = x.run(prefix)
	} else {
		// other shards still need the root execution's points, but do not count it
		saved := *x.rep
		ex = x.run(prefix)
		fl := x.rep.Failures
		*x.rep = saved
		_ = fl
	}
	if ex.Failure != "" {
		return
	}
	cost := 0
	branch := 0
	for i := 0; i < len(ex.Points); i++ {
		p := ex.Points[i]
		if i >= len(prefix) {
			for alt := 1; alt < p.Enabled; alt++ {
				c := cost
				if p.RunningEnabled {
					c++
				}
				if c > x.bound {
					continue
				}
				branch++
				if top && (branch-1)%nshards != shard {
					continue
				}
				np := make([]int, i+1)
				for j := 0; j < i; j++ {
					np[j] = ex.Points[j].Choice
				}
				np[i] = alt
				x.explore(np, false, 0, 1)
			}
		}
		if p.RunningEnabled && p.Choice != 0 {
			cost++
		}
	}
}

func main() {
	name := flag.String("driver", "", "driver name")
	bound := flag.Int("bound", 2, "preemption bound")
	shardS := flag.String("shard", "0/1", "shard i/n of the top-level branches")
	sched := flag.String("schedule", "", "comma-separated choice sequence to run once")
	capN := flag.Int64("cap", 3000000, "maximum executions")
	maxTime := flag.Duration("maxtime", 20*time.Minute, "wall-clock budget of this shard; when it is used up the shard reports exhaustive=false")
	list := flag.Bool("list", false, "list drivers")
	flag.Parse()
	if *list {
		for _, d := range drivers.All() {
			fmt.Printf("%s\t%d\t%s\n", d.Name, d.Threads, d.Doc)
		}
		return
	}
	d := find(*name)
	if d == nil {
		fmt.Fprintln(os.Stderr, "unknown driver", *name)
		os.Exit(2)
	}
	verifsync.Filter = drivers.PointFilter(d.Points)
	rep := &Report{Driver: d.Name, Threads: d.Threads, Bound: *bound, Shard: *shardS, Exhaustive: true}
	x := &explorer{d: d, bound: *bound, rep: rep, outcomes: map[string]bool{}, cap: *capN, labels: map[string]bool{}, start: time.Now(), maxTime: *maxTime}
	for i := 0; i < d.Threads; i++ {
		x.solo = append(x.solo, safeThread(d, d.Setup(), i))
	}
	if *sched != "" || flag.NArg() > 0 && flag.Arg(0) == "once" {
		var prefix []int
		for _, f := range strings.Split(*sched, ",") {
			if f == "" {
				continue
			}
			n, _ := strconv.Atoi(f)
			prefix = append(prefix, n)
		}
		x.run(prefix)
	} else {
		var si, sn int
		fmt.Sscanf(*shardS, "%d/%d", &si, &sn)
		if sn == 0 {
			sn = 1
		}
		// replay determinism: the default schedule twice must give identical point sequences
		a := verifsyncRun(x, nil)
		b := verifsyncRun(x, nil)
		rep.ReplayChecked = a == b
		if !rep.ReplayChecked {
			rep.Divergences++
		}
		rep.Executions, rep.Points = 0, 0
		x.explore(nil, true, si, sn)
	}
	rep.DistinctOutcome = len(x.outcomes)
	if strings.HasPrefix(*shardS, "0/") {
		for l := range x.labels {
			rep.Labels = append(rep.Labels, l)
		}
	}
	json.NewEncoder(os.Stdout).Encode(rep)
}

func verifsyncRun(x *explorer, prefix []int) string {
	ex := x.run(prefix)
	var sb strings.Builder
	for _, p := range ex.Points {
		fmt.Fprintf(&sb, "%d/%v/%s;", p.Enabled, p.RunningEnabled, p.Label)
	}
	return sb.String()
}
