package main

import (
	"fmt"
	"strings"
	"time"

	"verif/gen/cfgcorpus"
)

func main() {
	t := time.Now()
	cnt := map[string]int{}
	st := cfgcorpus.Enumerate("thorough", func(e cfgcorpus.Entry) bool {
		k := e.ID[:1]
		if strings.Contains(e.ID, "/crlf") {
			k += "crlf"
		}
		cnt[k]++
		return true
	})
	fmt.Println(cnt, st, time.Since(t))
}
