package main

import (
	"bufio"
	"fmt"
	"os"
	"strconv"

	"github.com/hashicorp/hcl/v2"
	"github.com/hashicorp/hcl/v2/hclsyntax"
	"github.com/hashicorp/hcl/v2/hclwrite"
)

func toks(src []byte) string {
	ts, _ := hclsyntax.LexConfig(src, "", hcl.InitialPos)
	s := ""
	for _, t := range ts {
		s += fmt.Sprintf("%s%q ", t.Type, t.Bytes)
	}
	return s
}

func walk(b *hclwrite.Body, ind string) {
	for n, a := range b.Attributes() {
		fmt.Printf("%s attr %s vars:", ind, n)
		for _, v := range a.Expr().Variables() {
			fmt.Printf(" %q", v.BuildTokens(nil).Bytes())
		}
		fmt.Println()
	}
	for _, bl := range b.Blocks() {
		fmt.Printf("%s block %s %q\n", ind, bl.Type(), bl.Labels())
		walk(bl.Body(), ind+"  ")
	}
}

func main() {
	sc := bufio.NewScanner(os.Stdin)
	for sc.Scan() {
		line := sc.Text()
		s, err := strconv.Unquote(`"` + line + `"`)
		if err != nil {
			fmt.Println("bad line", line, err)
			continue
		}
		src := []byte(s)
		_, d := hclsyntax.ParseConfig(src, "", hcl.InitialPos)
		fmt.Printf("SRC %q errs=%v\n", src, d.HasErrors())
		if d.HasErrors() {
			fmt.Println("   ", d.Error())
		}
		out := hclwrite.Format(src)
		_, d2 := hclsyntax.ParseConfig(out, "", hcl.InitialPos)
		fmt.Printf(" FMT %q errs=%v sameToks=%v\n", out, d2.HasErrors(), toks(src) == toks(out))
		if toks(src) != toks(out) {
			fmt.Println("  ", toks(src))
			fmt.Println("  ", toks(out))
		}
		out2 := hclwrite.Format(out)
		if string(out2) != string(out) {
			fmt.Printf(" FMT2 %q NOT IDEMPOTENT\n", out2)
		}
		if !d.HasErrors() {
			func() {
				defer func() {
					if r := recover(); r != nil {
						fmt.Println(" HCLWRITE PANIC", r)
					}
				}()
				f, d3 := hclwrite.ParseConfig(src, "", hcl.InitialPos)
				if d3.HasErrors() || f == nil {
					fmt.Println(" hclwrite errs", d3)
					return
				}
				b := f.Bytes()
				fmt.Printf(" BYTES %q eqFmt=%v sameToks=%v\n", b, string(b) == string(out), toks(b) == toks(src))
				walk(f.Body(), "  ")
			}()
		}
	}
}
