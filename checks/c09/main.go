// C09 — Formatting changes only inter-token spacing and is idempotent.
//
// Bounded exhaustive exploration of layouts: every configuration of the shared
// corpus verif/gen/cfgcorpus (token-adjacency configurations with every
// single / pair gap deviation, and the shape x position x comment product) is
// run through the real hclwrite.Format; the oracle is the invariant the
// property states (same token sequence, same structure and values, fixpoint).
package main

import (
	"bytes"
	"fmt"
	"os"
	"strings"

	"github.com/hashicorp/hcl/v2"
	"github.com/hashicorp/hcl/v2/hclsyntax"
	"github.com/hashicorp/hcl/v2/hclwrite"
	"github.com/zclconf/go-cty/cty"

	"verif/engine"
	"verif/gen/cfgcorpus"
	"verif/vfmt"
)

type Data struct {
	Src  string `json:"src"`
	Base string `json:"base,omitempty"` // informational: corpus base the layout was derived from
}

var counters engine.Counter

func gen(tier string, emit func(engine.Case) bool) {
	st := cfgcorpus.Enumerate(tier, func(e cfgcorpus.Entry) bool {
		return emit(engine.Case{ID: e.ID, Data: Data{Src: e.Src, Base: e.Base}})
	})
	counters.Add("corpus_bases", st.Bases)
	counters.Add("corpus_bases_outside_domain", st.BasesRejected)
	counters.Add("layout_candidates", st.Candidates)
	counters.Add("layout_duplicates", st.Duplicates)
	counters.Add("inputs", st.Emitted)
}

type evalResult struct {
	path string
	val  cty.Value
	err  bool
}

// evalAll evaluates every attribute expression of the body (recursively, in
// source order) in the fixed scope.
func evalAll(prefix string, s cfgcorpus.BodySum, ctx *hcl.EvalContext, out *[]evalResult) {
	for _, a := range s.Attrs {
		v, diags := a.Expr.Value(ctx)
		*out = append(*out, evalResult{path: prefix + a.Name, val: v, err: diags.HasErrors()})
	}
	for i, b := range s.Blocks {
		evalAll(fmt.Sprintf("%s%s[%d].", prefix, b.Type, i), b.Body, ctx, out)
	}
}

// spacingSlot names the formatting decision that governs byte offset off of
// text (a position inside or at the end of a gap): the indentation of a line,
// the column of an "=" or of a trailing line comment (the two aligned cells),
// or the spacing between two tokens inside a cell. It is the class suffix of
// idempotence failures: which decision did not reach its fixpoint.
func spacingSlot(text []byte, off int) string {
	toks, ranges, _ := cfgcorpus.Lex(text)
	for i := range toks {
		if ranges[i][1] <= off && !(ranges[i][0] == ranges[i][1] && ranges[i][0] >= off) {
			continue
		}
		// toks[i] is the first token ending after off: the gap before it (or
		// the token itself) is where the two passes differ.
		if off > ranges[i][0] {
			return "inside-" + cfgcorpus.TokName(toks[i].Type)
		}
		if toks[i].Type == hclsyntax.TokenEOF {
			// the blanks between the last token (or the start of the file)
			// and the end of the file
			if i == 0 {
				return "blanks-before-eof.file-without-tokens"
			}
			return "blanks-before-eof.after-" + cfgcorpus.TokName(toks[i-1].Type)
		}
		lineStart := i == 0 || toks[i-1].Type == hclsyntax.TokenNewline ||
			(toks[i-1].Type == hclsyntax.TokenComment && strings.HasSuffix(toks[i-1].Bytes, "\n"))
		switch {
		case lineStart:
			return "indent"
		case toks[i].Type == hclsyntax.TokenEqual:
			return "equals-column"
		case toks[i].Type == hclsyntax.TokenComment && strings.HasSuffix(toks[i].Bytes, "\n"):
			return "line-comment-column"
		}
		return "spacing." + cfgcorpus.TokName(toks[i-1].Type) + "-" + cfgcorpus.TokName(toks[i].Type)
	}
	return "end"
}

func firstDiff(a, b []byte) int {
	n := len(a)
	if len(b) < n {
		n = len(b)
	}
	for i := 0; i < n; i++ {
		if a[i] != b[i] {
			return i
		}
	}
	return n
}

// judge applies the oracle to the case's text. A leading UTF-8 byte order mark
// is not a token and not spacing between tokens: whether Format keeps or drops
// it is not specified, and nothing below looks at those three bytes (token
// sequences, parsing and evaluation are blind to them, and the fixpoint clause
// compares Format's output with Format of that output, whatever it starts
// with). When a text with a BOM fails and the same text without it does not,
// the class says so: the BOM is then the construct the failure depends on.
func judge(c engine.Case) engine.Outcome {
	d := c.Data.(Data)
	o := judgeSrc([]byte(d.Src))
	if o.V == engine.Viol && strings.HasPrefix(d.Src, cfgcorpus.BOM) {
		counters.Add("failing_inputs_with_bom", 1)
		if o2 := judgeSrc([]byte(strings.TrimPrefix(d.Src, cfgcorpus.BOM))); o2.V != engine.Viol {
			o.Class += ".only-with-leading-bom"
		}
	}
	return o
}

func judgeSrc(src []byte) engine.Outcome {

	// Domain: configurations that scan and parse without error diagnostics.
	srcToks, _, lexOK := cfgcorpus.Lex(src)
	srcFile, diags := hclsyntax.ParseConfig(src, "src.hcl", hcl.InitialPos)
	if !lexOK || diags.HasErrors() {
		return engine.Pass("")
	}

	out := hclwrite.Format(src)
	saved := string(out)

	// Clause 1: exactly the same sequence of (type, bytes), newline and
	// comment tokens included; only the spacing between tokens may differ.
	outToks, _, _ := cfgcorpus.Lex(out)
	if td := cfgcorpus.DiffToks(srcToks, outToks); td != nil {
		return engine.Fail("c09."+td.Class, "Format(%q) = %q does not have the token sequence of its input: %s", src, out, td.Msg)
	}

	// Clause 2: still parses without errors, to the same configuration.
	outFile, odiags := hclsyntax.ParseConfig(out, "out.hcl", hcl.InitialPos)
	if odiags.HasErrors() {
		return engine.Fail("c09.output-unparseable", "Format(%q) = %q has the same tokens but does not parse: %s", src, out, odiags.Error())
	}
	ss, os_ := cfgcorpus.Summarise(srcFile.Body.(*hclsyntax.Body)), cfgcorpus.Summarise(outFile.Body.(*hclsyntax.Body))
	if ss.Shape() != os_.Shape() {
		return engine.Fail("c09.structure-changed", "Format(%q) = %q parses to structure %s, the input to %s", src, out, os_.Shape(), ss.Shape())
	}
	// ... with the same expression values in a fixed scope.
	var sv, ov []evalResult
	evalAll("", ss, cfgcorpus.EvalContext(), &sv)
	evalAll("", os_, cfgcorpus.EvalContext(), &ov)
	var sig strings.Builder
	for i := range sv {
		if sv[i].err != ov[i].err {
			return engine.Fail("c09.value-error-changed", "attribute %s of %q: evaluation error=%v before formatting, %v after (%q)", sv[i].path, src, sv[i].err, ov[i].err, out)
		}
		if !sv[i].val.RawEquals(ov[i].val) {
			return engine.Fail("c09.value-changed", "attribute %s of %q evaluates to %s, after formatting (%q) to %s", sv[i].path, src, vfmt.V(sv[i].val), out, vfmt.V(ov[i].val))
		}
		if sv[i].err {
			sig.WriteString("E;")
			counters.Add("attribute_values_error", 1)
		} else {
			sig.WriteString(vfmt.V(sv[i].val))
			sig.WriteByte(';')
			counters.Add("attribute_values_compared", 1)
		}
	}

	// Clause 3: fixpoint.
	out2 := hclwrite.Format(out)
	saved2 := string(out2)
	// A result must stay what it was when later calls are made (no storage
	// shared between calls).
	other := hclwrite.Format([]byte("zz = [ 1,2 ]\nyy {\n}\n"))
	changed := string(out) != saved || string(out2) != saved2
	if len(out) > 0 && len(other) > 0 && len(out2) > 0 && (&out[0] == &other[0] || &out2[0] == &other[0] || &out[0] == &out2[0]) {
		changed = true // two results share their storage
	}
	out3 := hclwrite.Format(src)
	if changed || string(out3) != saved || string(other) != "zz = [1, 2]\nyy {\n}\n" {
		return engine.Fail("c09.result-changed-by-later-call", "the bytes returned by Format(%q) changed after later Format calls: first %q, now %q / %q / %q", src, saved, out, out2, out3)
	}
	if !bytes.Equal(out, out2) {
		off := firstDiff(out, out2)
		return engine.Fail("c09.not-idempotent."+spacingSlot(out, off), "Format is not idempotent on %q: first pass %q, second pass %q (first difference at byte %d)", src, out, out2, off)
	}
	if !bytes.Equal(src, out) {
		counters.Add("inputs_changed_by_format", 1)
	}
	if bytes.HasPrefix(src, []byte(cfgcorpus.BOM)) {
		counters.Add("inputs_with_bom_judged", 1)
	}
	if len(srcToks) == 1 {
		counters.Add("inputs_without_tokens_judged", 1)
	}
	return engine.Pass(string(out) + "\x00" + sig.String())
}

// shrink proposes smaller configurations: every line removed, every token
// removed, every gap reduced to one space. Candidates outside the domain pass
// trivially in judge and are therefore never adopted.
//
// A leading byte order mark is first tried away; the other candidates keep it
// (it is a prefix of the text, not part of the gap before the first token).
func shrink(c engine.Case) []engine.Case {
	d := c.Data.(Data)
	var out []engine.Case
	prefix := ""
	if strings.HasPrefix(d.Src, cfgcorpus.BOM) {
		prefix = cfgcorpus.BOM
		d.Src = strings.TrimPrefix(d.Src, cfgcorpus.BOM)
		out = append(out, engine.Case{ID: "shrunk:" + fmt.Sprintf("%q", d.Src), Data: Data{Src: d.Src, Base: d.Base}})
	}
	add := func(s string) {
		if s != d.Src {
			out = append(out, engine.Case{ID: "shrunk:" + fmt.Sprintf("%q", prefix+s), Data: Data{Src: prefix + s, Base: d.Base}})
		}
	}
	lines := strings.SplitAfter(d.Src, "\n")
	if len(lines) > 1 {
		for i := range lines {
			add(strings.Join(append(append([]string{}, lines[:i]...), lines[i+1:]...), ""))
		}
	}
	_, ranges, ok := cfgcorpus.Lex([]byte(d.Src))
	if ok {
		for i := range ranges {
			if ranges[i][0] == ranges[i][1] {
				continue
			}
			add(d.Src[:ranges[i][0]] + d.Src[ranges[i][1]:])
			if i+1 < len(ranges) && ranges[i+1][0] < ranges[i+1][1] {
				add(d.Src[:ranges[i][0]] + d.Src[ranges[i+1][1]:]) // two adjacent tokens
			}
		}
		prev := 0
		for i := range ranges {
			if gap := d.Src[prev:ranges[i][0]]; gap != "" {
				add(d.Src[:prev] + d.Src[ranges[i][0]:])
				if gap != " " {
					add(d.Src[:prev] + " " + d.Src[ranges[i][0]:])
				}
			}
			prev = ranges[i][1]
		}
	}
	return out
}

func main() {
	if bad := cfgcorpus.Validate(); len(bad) > 0 {
		fmt.Fprintf(os.Stderr, "corpus bases that do not parse (harness error): %v\n", bad)
		os.Exit(2)
	}
	engine.Main(&engine.Check{
		ID:        "C09",
		Title:     "Formatting changes only inter-token spacing and is idempotent",
		Technique: "bounded exhaustive enumeration of layouts of a token-adjacency corpus; invariant (token sequence, structure, values) plus fixpoint on the real formatter",
		Rule: "corpus verif/gen/cfgcorpus: (a) " + fmt.Sprint(len(cfgcorpus.PairBases())) + " hand-written valid configurations covering every token adjacency of the native syntax, (b) the product of " +
			fmt.Sprint(len(cfgcorpus.Shapes())) + " expression shapes x " + fmt.Sprint(len(cfgcorpus.Positions())) + " positions x 4 comment decorations (parser-rejected combinations dropped); " +
			"every base also with CRLF line endings; (c) file shapes: " + fmt.Sprint(len(cfgcorpus.FileShapeBases())) + " distinct texts of the products {no lead, space, two spaces, tab, newline} x {nothing, # c, // c, /* c */, '# c  ', '// c  ', '# c<tab>', #} x " +
			fmt.Sprint(len(cfgcorpus.FileEndings)) + " file endings (degenerate files) and last item (attribute value, closing bracket / brace, heredoc end marker, inline / # / // comment also with blanks inside the comment token) x file endings " +
			"{nothing, space, two spaces, tab, CR, LF, CRLF, blanks then LF / CRLF, LF then blanks, blank lines}, each also with CRLF line endings, with a leading UTF-8 BOM, and both (texts the parser rejects dropped). Layout deviations: each gap between adjacent tokens is replaced by each of {none, space, two spaces, tab, newline, /*c*/, #c<nl>, //c<nl>}, " +
			"keeping the variants that still parse without errors and scan to the base's tokens plus the inserted newline/comment tokens. " +
			"quick: " + cfgcorpus.PlanFor("quick").String() + ". thorough: " + cfgcorpus.PlanFor("thorough").String() + ". " +
			"Non-trivial = the input is an error-free configuration; distinct = distinct (formatted text, attribute values).",
		Assumptions: []string{
			"hclsyntax.LexConfig and hclsyntax.ParseConfig define the input domain (error-free configurations) and the token sequence of a text; they are the property's own observation points, not the code under test",
			"expression values are compared in one fixed scope (variables a, b, c, t, l, m, foo, a-b, é; functions f, ns::f)",
		},
		Gen:    gen,
		Judge:  judge,
		Load:   engine.LoadAs[Data],
		Shrink: shrink,
		Extra: func() map[string]any {
			m := map[string]any{}
			for k, v := range counters.Snapshot() {
				m[k] = v
			}
			ty, pr, tr := cfgcorpus.AdjacencyCoverage()
			m["base_token_types"], m["base_adjacent_type_pairs"], m["base_adjacent_type_triples"] = ty, pr, tr
			return m
		},
		QuickBudget:    4 * 60e9,
		ThoroughBudget: 40 * 60e9,
	})
}
