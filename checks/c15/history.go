package main

// History family: hidden state shared between calls / inputs.
//
// A designed set of items (front end, source bytes, start position, scopes)
// is enumerated as ALL ordered pairs (A, B). One engine case processes A and
// then B under the SAME fresh filename, then B alone under another fresh
// filename, and demands that B's complete observable outcome (diagnostics
// field by field, structure and ranges, Variables() traversals, static
// analysis, values and diagnostics in each scope, schema application) is the
// same in both runs modulo the filename, and that every range reported for B
// lies inside B's own input. Besides the filename, the one identifier the
// items share (placeholder "u0000000") is replaced by a name unique to the run
// (same width), so state keyed by content but not by filename is caught too,
// and cases running concurrently cannot interfere with each other.

import (
	"bytes"
	"fmt"
	"sort"
	"strings"
	"sync/atomic"

	"github.com/hashicorp/hcl/v2"
	"github.com/hashicorp/hcl/v2/hclsyntax"
	"github.com/hashicorp/hcl/v2/hclwrite"
	hcljson "github.com/hashicorp/hcl/v2/json"
	"github.com/zclconf/go-cty/cty"

	"verif/engine"
	"verif/vfmt"
)

type Item struct {
	FE     string   `json:"fe"` // json-expr | json-body | native-config | native-expr | native-template | native-traversal
	Src    []byte   `json:"src"`
	Text   string   `json:"text"`             // informational
	Start  [3]int   `json:"start"`            // line, column, byte of the start position argument
	Scopes []string `json:"scopes,omitempty"` // nil: every scope, in the order of ctxs
}

const uniqPlaceholder = "u0000000"

var historyRun atomic.Uint64

// ---------------------------------------------------------------------------
// the designed item set

var historyTemplates = []string{
	`${u0000000}`, `${u0000000.b`, `%{ if u0000000 }`, `${a}-${u0000000.b[0]}`, `%{ for x in l }${x}${u0000000}%{ endfor }`,
}

var historyCache []Item

func historyItems() []Item {
	if historyCache != nil {
		return historyCache
	}
	var out []Item
	def := [3]int{1, 1, 0}
	add := func(fe, src string, start [3]int, scopes []string) {
		out = append(out, Item{FE: fe, Src: []byte(src), Text: fmt.Sprintf("%q", src), Start: start, Scopes: scopes})
	}
	jq := func(t string) string { return strings.ReplaceAll(t, `"`, `\"`) }
	for ti, t := range historyTemplates {
		j := jq(t)
		// JSON expressions: nothing / ASCII / multi-byte before the string on
		// the same line (same column, different byte offset for "xx" vs "éé"),
		// another line, the same text twice in one input.
		for _, f := range []string{`"%s"`, `  "%s"`, "\n\"%s\"", `["xx","%s"]`, `["éé","%s"]`, `["é","%s"]`, `{"xx":"%s"}`, `{"éé":"%s"}`} {
			add("json-expr", fmt.Sprintf(f, j), def, nil)
		}
		add("json-expr", fmt.Sprintf(`["%s","%s"]`, j, j), def, nil)
		// JSON bodies
		for _, f := range []string{`{"a":"%s"}`, ` {"a":"%s"}`, "\n{\"a\":\"%s\"}", `{"xx":1,"a":"%s"}`, `{"éé":1,"a":"%s"}`, `{"blk":{"a":"%s"}}`, `{"b1":{"xx":{"a":"%s"}}}`, `{"b1":{"éé":{"a":"%s"}}}`} {
			add("json-body", fmt.Sprintf(f, j), def, nil)
		}
		// native configs: multi-byte on the same line and on an earlier line
		for _, f := range []string{"a = \"%s\"\n", "\na = \"%s\"\n", "a = [\"xx\", \"%s\"]\n", "a = [\"éé\", \"%s\"]\n", "/* xx */ a = \"%s\"\n", "/* éé */ a = \"%s\"\n",
			"b1 \"xx\" {\n  a = \"%s\"\n}\n", "b1 \"éé\" {\n  a = \"%s\"\n}\n"} {
			add("native-config", fmt.Sprintf(f, t), def, nil)
		}
		for _, f := range []string{`"%s"`, `["xx", "%s"]`, `["éé", "%s"]`, `/* xx */ "%s"`, `/* éé */ "%s"`} {
			add("native-expr", fmt.Sprintf(f, t), def, nil)
		}
		for _, f := range []string{"%s", "xx %s", "éé %s", "é\n%s"} {
			add("native-template", fmt.Sprintf(f, t), def, nil)
		}
		// the same bytes with other start positions
		if ti < 3 {
			for _, st := range [][3]int{{3, 5, 40}, {1, 1, 2}} {
				add("json-expr", fmt.Sprintf(`"%s"`, j), st, nil)
				add("json-body", fmt.Sprintf(`{"a":"%s"}`, j), st, nil)
				add("native-config", fmt.Sprintf("a = \"%s\"\n", t), st, nil)
				add("native-expr", fmt.Sprintf(`"%s"`, t), st, nil)
				add("native-template", t, st, nil)
			}
		}
	}
	// the same input evaluated in other scopes / another order of scopes
	for _, sc := range [][]string{{"marked"}, {"unknown"}, {"typical"}, {"deepmarked", "dynamic", "typical", "empty", "nil"}} {
		add("json-expr", `"${a}-${u0000000.b[0]}"`, def, sc)
		add("json-expr", `["${upper(a)}",{"k":"${l[0]}"}]`, def, sc)
		add("json-body", `{"a":"${a}-${u0000000.b[0]}","b":"${l}"}`, def, sc)
		add("native-config", "a = \"${a}-${u0000000.b[0]}\"\nb = [for x in l : upper(x)]\n", def, sc)
		add("native-expr", `[for x in l : "${x}${a}"]`, def, sc)
		add("native-template", `${a}-${u0000000.b[0]}`, def, sc)
	}
	// bare expressions, traversals, lexical errors
	for _, s := range []string{`u0000000.b[0]`, `upper(u0000000)`, `/* éé */ u0000000.b`, `/* xx */ u0000000.b`, "[\"\xff\", u0000000]"} {
		add("native-expr", s, def, nil)
	}
	for _, s := range []string{`u0000000.b`, `u0000000.b[0]`, ` u0000000.b`, "\nu0000000.b", `u0000000.b[`, `u0000000[*].b`} {
		add("native-traversal", s, def, nil)
		add("native-traversal", s, [3]int{2, 4, 9}, nil)
	}
	add("native-config", "a = \"\xff\"\n", def, nil)
	add("native-config", "a = 1\n", def, nil)
	add("json-body", `{"a":1}`, def, nil)
	historyCache = out
	return out
}

func genHistory(emit func(engine.Case) bool) bool {
	items := historyItems()
	for i := range items {
		for j := range items {
			a, b := items[i], items[j]
			c := engine.Case{ID: fmt.Sprintf("h%d>%d", i, j), Data: Data{Origin: "history", A: &a, B: &b, Text: a.Text + " then " + b.Text}}
			if !emit(c) {
				return false
			}
		}
	}
	return true
}

// ---------------------------------------------------------------------------
// outcome of one item

type section struct{ key, text string }

type outcome struct {
	secs  []section
	diags hcl.Diagnostics // every diagnostic whose ranges must lie in the input
	rngs  []hcl.Range     // other ranges that must lie in the input (Variables() of error-free results)
}

func (o *outcome) add(key, format string, a ...any) {
	text := fmt.Sprintf(format, a...)
	if n := len(o.secs); n > 0 && o.secs[n-1].key == key {
		o.secs[n-1].text += "\n" + text
		return
	}
	o.secs = append(o.secs, section{key, text})
}

func fullR(r hcl.Range) string {
	return fmt.Sprintf("%s:%d,%d,%d-%d,%d,%d", r.Filename, r.Start.Line, r.Start.Column, r.Start.Byte, r.End.Line, r.End.Column, r.End.Byte)
}

func fullTraversal(t hcl.Traversal) string {
	var sb strings.Builder
	for _, s := range t {
		switch st := s.(type) {
		case hcl.TraverseRoot:
			fmt.Fprintf(&sb, "root %s@%s ", st.Name, fullR(st.SrcRange))
		case hcl.TraverseAttr:
			fmt.Fprintf(&sb, "attr %s@%s ", st.Name, fullR(st.SrcRange))
		case hcl.TraverseIndex:
			fmt.Fprintf(&sb, "index %s@%s ", vfmt.V(st.Key), fullR(st.SrcRange))
		case hcl.TraverseSplat:
			fmt.Fprintf(&sb, "splat@%s ", fullR(st.SrcRange))
		default:
			fmt.Fprintf(&sb, "%T ", s)
		}
	}
	return sb.String()
}

func itemScopes(it *Item) []scope {
	if it.Scopes == nil {
		return ctxs
	}
	var out []scope
	for _, n := range it.Scopes {
		for _, sc := range ctxs {
			if sc.name == n {
				out = append(out, sc)
			}
		}
	}
	return out
}

// exprOutcome records everything observable about one expression.
func exprOutcome(o *outcome, label string, e hcl.Expression, scopes []scope, parseOK bool) {
	o.add("structure", "%s range %s start %s", label, fullR(e.Range()), fullR(e.StartRange()))
	if se, ok := e.(hclsyntax.Expression); ok {
		var sb strings.Builder
		hclsyntax.VisitAll(se, func(n hclsyntax.Node) hcl.Diagnostics {
			fmt.Fprintf(&sb, "%T@%s ", n, fullR(n.Range()))
			return nil
		})
		o.add("structure", "%s tree %s", label, sb.String())
	}
	for _, t := range e.Variables() {
		o.add("variables", "%s %s", label, fullTraversal(t))
		if parseOK {
			for _, s := range t {
				switch st := s.(type) {
				case hcl.TraverseRoot:
					o.rngs = append(o.rngs, st.SrcRange)
				case hcl.TraverseAttr:
					o.rngs = append(o.rngs, st.SrcRange)
				case hcl.TraverseIndex:
					o.rngs = append(o.rngs, st.SrcRange)
				}
			}
		}
	}
	at, d1 := hcl.AbsTraversalForExpr(e)
	rt, d2 := hcl.RelTraversalForExpr(e)
	call, d3 := hcl.ExprCall(e)
	list, d4 := hcl.ExprList(e)
	pairs, d5 := hcl.ExprMap(e)
	o.add("static", "%s abs %s [%s] rel %s [%s] keyword %q", label, fullTraversal(at), diagDump(d1, false), fullTraversal(rt), diagDump(d2, false), hcl.ExprAsKeyword(e))
	if call != nil {
		o.add("static", "%s call %s name@%s args@%s/%d", label, call.Name, fullR(call.NameRange), fullR(call.ArgsRange), len(call.Arguments))
	}
	o.add("static", "%s call-diags [%s] list %d [%s] map %d [%s]", label, diagDump(d3, false), len(list), diagDump(d4, false), len(pairs), diagDump(d5, false))
	for i, x := range list {
		o.add("structure", "%s list[%d] %s", label, i, fullR(x.Range()))
	}
	for i, p := range pairs {
		o.add("structure", "%s map[%d] %s => %s", label, i, fullR(p.Key.Range()), fullR(p.Value.Range()))
	}
	if parseOK {
		for _, d := range []hcl.Diagnostics{d1, d2, d3, d4, d5} {
			o.diags = append(o.diags, d...)
		}
	}
	for _, sc := range scopes {
		var v cty.Value
		var d hcl.Diagnostics
		if c := protect(func() { v, d = e.Value(sc.ctx) }); c != nil {
			o.add("value", "%s in %s: panic %v", label, sc.name, c.val)
			continue
		}
		o.add("value", "%s in %s = %s", label, sc.name, vfmt.V(v))
		o.add("eval-diags", "%s in %s: [%s]", label, sc.name, diagDump(d, false))
		if parseOK {
			o.diags = append(o.diags, d...)
		}
	}
}

func contentOutcome(o *outcome, label string, c *hcl.BodyContent, d hcl.Diagnostics) {
	o.diags = append(o.diags, d...)
	var sb strings.Builder
	if c != nil {
		names := make([]string, 0, len(c.Attributes))
		for k := range c.Attributes {
			names = append(names, k)
		}
		sort.Strings(names)
		for _, k := range names {
			a := c.Attributes[k]
			fmt.Fprintf(&sb, "attr %s/%s@%s name@%s expr@%s; ", k, a.Name, fullR(a.Range), fullR(a.NameRange), fullR(a.Expr.Range()))
		}
		for _, b := range c.Blocks {
			fmt.Fprintf(&sb, "block %s %q def@%s type@%s labels@", b.Type, b.Labels, fullR(b.DefRange), fullR(b.TypeRange))
			for _, lr := range b.LabelRanges {
				sb.WriteString(fullR(lr) + ",")
			}
			sb.WriteString("; ")
		}
		fmt.Fprintf(&sb, "missing@%s", fullR(c.MissingItemRange))
	} else {
		sb.WriteString("<nil content>")
	}
	o.add("schema", "%s: %s diags(sorted) [%s]", label, sb.String(), diagDump(d, true))
}

// bodyOutcome applies the schema family and evaluates the attributes found.
func bodyOutcome(o *outcome, label string, b hcl.Body, scopes []scope, parseOK bool, depth int) {
	for si, sch := range schemas {
		c, d := b.Content(sch)
		contentOutcome(o, fmt.Sprintf("%s content[%d]", label, si), c, d)
		pc, remain, pd := b.PartialContent(sch)
		contentOutcome(o, fmt.Sprintf("%s partial[%d]", label, si), pc, pd)
		if !isNilIface(remain) {
			ra, rd := remain.JustAttributes()
			o.diags = append(o.diags, rd...)
			o.add("schema", "%s remain[%d]: %d attrs, missing@%s, diags(sorted) [%s]", label, si, len(ra), fullR(remain.MissingItemRange()), diagDump(rd, true))
		}
		if si == unionSchema && pc != nil {
			names := make([]string, 0, len(pc.Attributes))
			for k := range pc.Attributes {
				names = append(names, k)
			}
			sort.Strings(names)
			for _, k := range names {
				exprOutcome(o, label+"."+k, pc.Attributes[k].Expr, scopes, parseOK)
			}
			if depth < 3 {
				for bi, blk := range pc.Blocks {
					bodyOutcome(o, fmt.Sprintf("%s/%s[%d]", label, blk.Type, bi), blk.Body, scopes, parseOK, depth+1)
				}
			}
		}
	}
	attrs, d := b.JustAttributes()
	o.diags = append(o.diags, d...)
	names := make([]string, 0, len(attrs))
	for k := range attrs {
		names = append(names, k)
	}
	sort.Strings(names)
	o.add("schema", "%s just-attributes %v missing@%s diags(sorted) [%s]", label, names, fullR(b.MissingItemRange()), diagDump(d, true))
	if depth == 0 {
		for _, k := range names {
			exprOutcome(o, label+".just."+k, attrs[k].Expr, scopes, parseOK)
		}
	}
}

func syntaxBodyOutcome(o *outcome, b *hclsyntax.Body, depth int) {
	if b == nil {
		o.add("structure", "<nil body>")
		return
	}
	o.add("structure", "body@%s end@%s", fullR(b.SrcRange), fullR(b.EndRange))
	names := make([]string, 0, len(b.Attributes))
	for k := range b.Attributes {
		names = append(names, k)
	}
	sort.Strings(names)
	for _, k := range names {
		a := b.Attributes[k]
		o.add("structure", "attr %s@%s name@%s equals@%s", k, fullR(a.SrcRange), fullR(a.NameRange), fullR(a.EqualsRange))
	}
	for _, blk := range b.Blocks {
		o.add("structure", "block %s %q type@%s open@%s close@%s", blk.Type, blk.Labels, fullR(blk.TypeRange), fullR(blk.OpenBraceRange), fullR(blk.CloseBraceRange))
		if depth < 8 {
			syntaxBodyOutcome(o, blk.Body, depth+1)
		}
	}
}

// processItem runs one item under the given filename with the shared
// identifier replaced by token and returns its complete outcome.
func processItem(it *Item, filename, token string) (o *outcome) {
	o = &outcome{}
	src := bytes.ReplaceAll(it.Src, []byte(uniqPlaceholder), []byte(token))
	start := hcl.Pos{Line: it.Start[0], Column: it.Start[1], Byte: it.Start[2]}
	scopes := itemScopes(it)
	if c := protect(func() {
		switch it.FE {
		case "json-expr":
			e, d := hcljson.ParseExpressionWithStartPos(src, filename, start)
			o.diags = append(o.diags, d...)
			o.add("parse-diags", "[%s]", diagDump(d, false))
			exprOutcome(o, "expr", e, scopes, !d.HasErrors())
		case "json-body":
			f, d := hcljson.ParseWithStartPos(src, filename, start)
			o.diags = append(o.diags, d...)
			o.add("parse-diags", "[%s]", diagDump(d, false))
			bodyOutcome(o, "body", f.Body, scopes, !d.HasErrors(), 0)
		case "native-config":
			toks, ld := hclsyntax.LexConfig(src, filename, start)
			var sb strings.Builder
			for _, t := range toks {
				fmt.Fprintf(&sb, "%c@%s ", rune(t.Type), fullR(t.Range))
			}
			o.add("tokens", "%s [%s]", sb.String(), diagDump(ld, false))
			f, d := hclsyntax.ParseConfig(src, filename, start)
			o.diags = append(o.diags, d...)
			o.add("parse-diags", "[%s]", diagDump(d, false))
			syntaxBodyOutcome(o, f.Body.(*hclsyntax.Body), 0)
			wf, wd := hclwrite.ParseConfig(src, filename, start)
			if wf != nil {
				o.add("writer", "%q [%s]", wf.Bytes(), diagDump(wd, false))
			} else {
				o.add("writer", "<nil> [%s]", diagDump(wd, false))
			}
			bodyOutcome(o, "body", f.Body, scopes, !d.HasErrors(), 0)
		case "native-expr", "native-template":
			parse := hclsyntax.ParseExpression
			if it.FE == "native-template" {
				parse = hclsyntax.ParseTemplate
			}
			e, d := parse(src, filename, start)
			o.diags = append(o.diags, d...)
			o.add("parse-diags", "[%s]", diagDump(d, false))
			exprOutcome(o, "expr", e, scopes, !d.HasErrors())
		case "native-traversal":
			for _, ep := range []struct {
				name string
				fn   func([]byte, string, hcl.Pos) (hcl.Traversal, hcl.Diagnostics)
			}{{"abs", hclsyntax.ParseTraversalAbs}, {"partial", hclsyntax.ParseTraversalPartial}} {
				t, d := ep.fn(src, filename, start)
				o.diags = append(o.diags, d...)
				o.add("parse-diags", "%s [%s]", ep.name, diagDump(d, false))
				o.add("structure", "%s %s", ep.name, fullTraversal(t))
				if d.HasErrors() || ep.name == "partial" {
					continue
				}
				for _, sc := range scopes {
					v, vd := t.TraverseAbs(sc.ctx)
					o.diags = append(o.diags, vd...)
					o.add("value", "%s in %s = %s", ep.name, sc.name, vfmt.V(v))
					o.add("eval-diags", "%s in %s: [%s]", ep.name, sc.name, diagDump(vd, false))
				}
			}
		}
	}); c != nil {
		o.add("panic", "%v [%s]", c.val, c.frames)
	}
	// normalise the run-specific names
	for i := range o.secs {
		s := strings.ReplaceAll(o.secs[i].text, filename, "<F>")
		o.secs[i].text = strings.ReplaceAll(s, token, "u#######")
	}
	return o
}

// ---------------------------------------------------------------------------
// the judge of one ordered pair

func judgeHistory(d Data) engine.Outcome {
	n := historyRun.Add(2)
	filePair, fileSolo := fmt.Sprintf("h%d.pair", n), fmt.Sprintf("h%d.solo", n)
	tokPair, tokSolo := fmt.Sprintf("u%07d", 1+n%9999998), fmt.Sprintf("u%07d", 2+n%9999998)
	_ = processItem(d.A, filePair, tokPair)
	after := processItem(d.B, filePair, tokPair)
	solo := processItem(d.B, fileSolo, tokSolo)
	flushCounters(map[string]int64{"history.pairs": 1, "history.sections_compared": int64(len(solo.secs))})

	fe := d.B.FE
	// (1) B after A must equal B alone, section by section
	for i := 0; i < len(after.secs) || i < len(solo.secs); i++ {
		var a, s section
		if i < len(after.secs) {
			a = after.secs[i]
		}
		if i < len(solo.secs) {
			s = solo.secs[i]
		}
		if a != s {
			key := a.key
			if key == "" {
				key = s.key
			}
			return engine.Fail("c15.history."+fe+"."+key, "processing %s (%s) and then %s (%s, start %v) under one filename changes the outcome of the second:\nafter the first: %s: %s\nalone:           %s: %s",
				d.A.Text, d.A.FE, d.B.Text, fe, d.B.Start, a.key, firstDiff(a.text, s.text), s.key, firstDiff(s.text, a.text))
		}
	}
	// (2) every range reported for B (after A) lies inside B's own input
	lo, hi := d.B.Start[2], d.B.Start[2]+len(d.B.Src)
	bad := func(r hcl.Range) string {
		if r.Start.Byte < lo || r.End.Byte < r.Start.Byte || r.End.Byte > hi {
			return fmt.Sprintf("byte range [%d,%d) is not within [%d,%d]", r.Start.Byte, r.End.Byte, lo, hi)
		}
		if r.Start.Line < 1 || r.Start.Column < 1 || r.End.Line < 1 || r.End.Column < 1 {
			return fmt.Sprintf("range %d:%d-%d:%d has a line or column below 1", r.Start.Line, r.Start.Column, r.End.Line, r.End.Column)
		}
		return ""
	}
	for _, dg := range after.diags {
		for _, r := range []*hcl.Range{dg.Subject, dg.Context} {
			if r == nil {
				continue
			}
			if msg := bad(*r); msg != "" {
				return engine.Fail("c15.history."+fe+".range-out-of-bounds", "%s (%s, start %v) processed after %s: diagnostic %q: %s", d.B.Text, fe, d.B.Start, d.A.Text, dg.Summary, msg)
			}
		}
	}
	for _, r := range after.rngs {
		if msg := bad(r); msg != "" {
			return engine.Fail("c15.history."+fe+".variables-range-out-of-bounds", "%s (%s, start %v) processed after %s: Variables() traversal step: %s", d.B.Text, fe, d.B.Start, d.A.Text, msg)
		}
	}
	// signature: what B looked like
	var sig strings.Builder
	fmt.Fprintf(&sig, "history:%s>%s:", d.A.FE, fe)
	for _, s := range solo.secs {
		if s.key == "parse-diags" || s.key == "value" || s.key == "variables" {
			t := s.text
			if len(t) > 160 {
				t = t[:160]
			}
			sig.WriteString(t + ";")
		}
	}
	return engine.Pass(sig.String())
}

// firstDiff returns the first line of a that is not the corresponding line of b.
func firstDiff(a, b string) string {
	al, bl := strings.Split(a, "\n"), strings.Split(b, "\n")
	for i, l := range al {
		if i >= len(bl) || bl[i] != l {
			if len(l) > 700 {
				l = l[:700] + "…"
			}
			return l
		}
	}
	return "(no further line)"
}
