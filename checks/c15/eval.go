package main

import (
	"fmt"
	"sort"
	"strings"

	"github.com/hashicorp/hcl/v2"
	"github.com/hashicorp/hcl/v2/hclsyntax"
	"github.com/zclconf/go-cty/cty"
	"github.com/zclconf/go-cty/cty/function"
	"github.com/zclconf/go-cty/cty/function/stdlib"

	"verif/vfmt"
)

// ---------------------------------------------------------------------------
// scopes

type scope struct {
	name   string
	ctx    *hcl.EvalContext
	marked bool
}

var ctxs = buildScopes()

func baseVars() map[string]cty.Value {
	return map[string]cty.Value{
		"a": cty.StringVal("A"),
		"b": cty.NumberIntVal(2),
		"c": cty.True,
		"l": cty.ListVal([]cty.Value{cty.StringVal("x"), cty.StringVal("y")}),
		"m": cty.MapVal(map[string]cty.Value{"k": cty.StringVal("v")}),
		"o": cty.ObjectVal(map[string]cty.Value{
			"a": cty.StringVal("oa"),
			"l": cty.ListVal([]cty.Value{
				cty.ObjectVal(map[string]cty.Value{"n": cty.NumberIntVal(1)}),
				cty.ObjectVal(map[string]cty.Value{"n": cty.NumberIntVal(2)}),
			}),
			"f": cty.ObjectVal(map[string]cty.Value{"g": cty.NumberIntVal(1)}),
		}),
		"t": cty.TupleVal([]cty.Value{cty.StringVal("s"), cty.NumberIntVal(1), cty.True}),
		"n": cty.NullVal(cty.DynamicPseudoType),
		"s": cty.SetVal([]cty.Value{cty.StringVal("p"), cty.StringVal("q")}),
		"v": cty.StringVal("k"),
		"e": cty.ListValEmpty(cty.String),
	}
}

func funcs() map[string]function.Function {
	return map[string]function.Function{
		"upper":     stdlib.UpperFunc,
		"length":    stdlib.LengthFunc,
		"join":      stdlib.JoinFunc,
		"min":       stdlib.MinFunc,
		"concat":    stdlib.ConcatFunc,
		"ns::upper": stdlib.UpperFunc,
	}
}

func mapVars(f func(cty.Value) cty.Value) map[string]cty.Value {
	out := map[string]cty.Value{}
	for k, v := range baseVars() {
		out[k] = f(v)
	}
	return out
}

func buildScopes() []scope {
	// typical: a parent scope with the functions and some variables and a
	// child scope with the rest (exercises the parent chain).
	parent := &hcl.EvalContext{Functions: funcs(), Variables: map[string]cty.Value{}}
	child := parent.NewChild()
	child.Variables = map[string]cty.Value{}
	for k, v := range baseVars() {
		if k <= "c" {
			parent.Variables[k] = v
		} else {
			child.Variables[k] = v
		}
	}
	deep := func(v cty.Value) cty.Value {
		out, err := cty.Transform(v, func(_ cty.Path, x cty.Value) (cty.Value, error) {
			if x.Type().IsPrimitiveType() {
				return x.Mark("m"), nil
			}
			return x, nil
		})
		if err != nil {
			panic(err)
		}
		return out
	}
	return []scope{
		{"nil", nil, false},
		{"empty", &hcl.EvalContext{}, false},
		{"typical", child, false},
		{"dynamic", &hcl.EvalContext{Functions: funcs(), Variables: mapVars(func(cty.Value) cty.Value { return cty.DynamicVal })}, false},
		{"unknown", &hcl.EvalContext{Functions: funcs(), Variables: mapVars(func(v cty.Value) cty.Value { return cty.UnknownVal(v.Type()) })}, false},
		{"marked", &hcl.EvalContext{Functions: funcs(), Variables: mapVars(func(v cty.Value) cty.Value { return v.Mark("m") })}, true},
		{"deepmarked", &hcl.EvalContext{Functions: funcs(), Variables: mapVars(deep)}, true},
	}
}

// ---------------------------------------------------------------------------
// schemas

var blockSchemas = []hcl.BlockHeaderSchema{
	{Type: "blk"},
	{Type: "b1", LabelNames: []string{"x"}},
	{Type: "b2", LabelNames: []string{"x", "y"}},
}

var schemas = []*hcl.BodySchema{
	{},
	{Attributes: []hcl.AttributeSchema{{Name: "a"}, {Name: "b"}}},
	{Attributes: []hcl.AttributeSchema{{Name: "a", Required: true}}},
	{Blocks: blockSchemas},
	// union schema: also the one used to descend into nested bodies
	{Attributes: []hcl.AttributeSchema{{Name: "a"}, {Name: "b"}, {Name: "c", Required: true}}, Blocks: blockSchemas},
	// label-count mismatches and an attribute name used as a block type
	{Blocks: []hcl.BlockHeaderSchema{{Type: "blk", LabelNames: []string{"x"}}, {Type: "b1"}, {Type: "b2", LabelNames: []string{"x"}}, {Type: "a"}}},
}

const unionSchema = 4

// applySchemas applies the schema family to a (possibly partial) body and
// descends into the blocks found by the union schema.
func (r *runner) applySchemas(origin string, body hcl.Body, depth int, parseOK bool) {
	stage := "content." + origin
	for si, sch := range schemas {
		var content *hcl.BodyContent
		var remain hcl.Body
		var diags hcl.Diagnostics
		if c := protect(func() { content, diags = body.Content(sch) }); c != nil {
			r.failf("c15.panic.content."+origin+"@"+c.frame, "Content(schema %d) at depth %d panicked: %v [%s]", si, depth, c.val, c.frames)
			return
		}
		r.checkDiags(stage, diags)
		r.checkContent(stage, content)
		if c := protect(func() { content, remain, diags = body.PartialContent(sch) }); c != nil {
			r.failf("c15.panic.partial-content."+origin+"@"+c.frame, "PartialContent(schema %d) at depth %d panicked: %v [%s]", si, depth, c.val, c.frames)
			return
		}
		r.checkDiags(stage, diags)
		r.checkContent(stage, content)
		r.cnt["schema_applications."+origin] += 2
		if !isNilIface(remain) {
			if c := protect(func() {
				_, d1 := remain.JustAttributes()
				_, d2 := remain.Content(schemas[0])
				_, _, d3 := remain.PartialContent(schemas[1])
				_ = remain.MissingItemRange()
				diags = append(append(d1, d2...), d3...)
			}); c != nil {
				r.failf("c15.panic.remain-body."+origin+"@"+c.frame, "using the remain body of PartialContent(schema %d) panicked: %v [%s]", si, c.val, c.frames)
				return
			}
			r.checkDiags(stage, diags)
		}
		if si == unionSchema && content != nil {
			if origin == "json" {
				// native attribute expressions are evaluated by walking the
				// syntax tree; JSON ones are reachable only through schemas
				names := make([]string, 0, len(content.Attributes))
				for k := range content.Attributes {
					names = append(names, k)
				}
				sort.Strings(names)
				for _, k := range names {
					if a := content.Attributes[k]; a != nil && !isNilIface(a.Expr) {
						r.staticAnalysis(origin, a.Expr, parseOK)
						r.evalExpr(origin, a.Expr, parseOK)
					}
				}
			}
			if depth < 4 {
				for _, blk := range content.Blocks {
					if blk != nil && !isNilIface(blk.Body) {
						r.applySchemas(origin, blk.Body, depth+1, parseOK)
					}
				}
			}
		}
	}
	var attrs hcl.Attributes
	var diags hcl.Diagnostics
	if c := protect(func() {
		attrs, diags = body.JustAttributes()
		_ = body.MissingItemRange()
	}); c != nil {
		r.failf("c15.panic.just-attributes."+origin+"@"+c.frame, "JustAttributes at depth %d panicked: %v [%s]", depth, c.val, c.frames)
		return
	}
	r.checkDiags(stage, diags)
	for k, a := range attrs {
		if a == nil || isNilIface(a.Expr) {
			r.failf("c15.nil-result.just-attributes."+origin, "JustAttributes returned a nil attribute or expression for %q", k)
		}
	}
	if origin == "json" && depth == 0 {
		names := make([]string, 0, len(attrs))
		for k := range attrs {
			names = append(names, k)
		}
		sort.Strings(names)
		for _, k := range names {
			if a := attrs[k]; a != nil && !isNilIface(a.Expr) {
				r.evalExpr(origin, a.Expr, parseOK)
			}
		}
	}
}

func (r *runner) checkContent(stage string, c *hcl.BodyContent) {
	if c == nil {
		return // "The returned body content is valid if non-nil"
	}
	for k, a := range c.Attributes {
		if a == nil || isNilIface(a.Expr) {
			r.failf("c15.nil-result."+stage, "%s returned a nil attribute or attribute expression for %q", stage, k)
		}
	}
	for _, b := range c.Blocks {
		if b == nil || isNilIface(b.Body) {
			r.failf("c15.nil-result."+stage, "%s returned a nil block or a block with a nil body", stage)
		}
	}
}

// evalSyntaxBody evaluates every attribute expression of a native body,
// recursively through its blocks.
func (r *runner) evalSyntaxBody(b *hclsyntax.Body, parseOK bool, depth int) {
	if b == nil || depth > 64 {
		return
	}
	names := make([]string, 0, len(b.Attributes))
	for k := range b.Attributes {
		names = append(names, k)
	}
	sort.Strings(names)
	for _, k := range names {
		if a := b.Attributes[k]; a != nil && !isNilIface(a.Expr) {
			r.staticAnalysis("native", a.Expr, parseOK)
			r.evalExpr("native", a.Expr, parseOK)
		}
	}
	for _, blk := range b.Blocks {
		if blk != nil {
			r.evalSyntaxBody(blk.Body, parseOK, depth+1)
		}
	}
}

// staticAnalysis exercises the schema-less analysis entry points.
func (r *runner) staticAnalysis(origin string, e hcl.Expression, parseOK bool) {
	var diags hcl.Diagnostics
	if c := protect(func() {
		_ = e.Variables()
		_ = e.Range()
		_ = e.StartRange()
		_, d1 := hcl.AbsTraversalForExpr(e)
		_, d2 := hcl.RelTraversalForExpr(e)
		_, d3 := hcl.ExprList(e)
		_, d4 := hcl.ExprMap(e)
		_, d5 := hcl.ExprCall(e)
		_ = hcl.ExprAsKeyword(e)
		for _, d := range []hcl.Diagnostics{d1, d2, d3, d4, d5} {
			diags = append(diags, d...)
		}
	}); c != nil {
		r.failf("c15.panic.static-analysis."+origin+"@"+c.frame, "static analysis (Variables/AbsTraversalForExpr/ExprList/ExprMap/ExprCall) of a %s expression panicked: %v [%s]", origin, c.val, c.frames)
		return
	}
	if parseOK {
		r.checkDiags("static."+origin, diags)
	}
}

// jsonObjectMarkedKey reports whether e is (or contains) a JSON object
// expression one of whose key templates evaluates to a marked value in ctx.
func jsonObjectMarkedKey(e hcl.Expression, ctx *hcl.EvalContext, depth int) (found bool) {
	if depth > 32 {
		return false
	}
	defer func() {
		if recover() != nil {
			// a nested object with a marked key panics when evaluated as a value
		}
	}()
	if pairs, d := hcl.ExprMap(e); !d.HasErrors() {
		for _, p := range pairs {
			var kv cty.Value
			if protect(func() { kv, _ = p.Key.Value(ctx) }) == nil && kv != cty.NilVal && kv.ContainsMarked() {
				return true
			}
			if jsonObjectMarkedKey(p.Value, ctx, depth+1) {
				return true
			}
		}
		return false
	}
	if list, d := hcl.ExprList(e); !d.HasErrors() {
		for _, x := range list {
			if jsonObjectMarkedKey(x, ctx, depth+1) {
				return true
			}
		}
	}
	return false
}

// evalExpr evaluates e in every scope; it returns the rendering of the value
// in the typical scope (for the signature).
// diagKeys: severity, summary and subject range of every diagnostic, sorted (the detail text may
// hold a "did you mean" suggestion picked from a map and is not compared).
func diagKeys(diags hcl.Diagnostics) string {
	var ks []string
	for _, d := range diags {
		k := fmt.Sprintf("%d|%s", d.Severity, d.Summary)
		if d.Subject != nil {
			k += "|" + rstr(*d.Subject)
		}
		ks = append(ks, k)
	}
	sort.Strings(ks)
	return strings.Join(ks, ";")
}

func (r *runner) evalExpr(origin string, e hcl.Expression, parseOK bool) string {
	typical := ""
	for _, sc := range ctxs {
		var v cty.Value
		var diags hcl.Diagnostics
		if c := protect(func() { v, diags = e.Value(sc.ctx) }); c != nil {
			partial := ""
			if !parseOK {
				partial = "partial-"
			}
			if origin == "json" && sc.marked && jsonObjectMarkedKey(e, sc.ctx, 0) {
				r.cnt["json_object_marked_key_panics"]++
				if !parseOK {
					continue // same defect seen through a partial parse result: not reported twice
				}
				r.failf("c15.json-object-marked-key-panic", "Value(%s scope) of a JSON object expression whose key template evaluates to a marked string panicked: %v [%s]", sc.name, c.val, c.frames)
				continue
			}
			r.failf("c15.panic."+partial+"eval."+origin+"."+sc.name+"@"+c.frame, "Value(%s scope) of a %s expression (range %s, parse errors: %v) panicked: %v [%s]", sc.name, origin, rstr(e.Range()), !parseOK, c.val, c.frames)
			continue
		}
		r.cnt["evaluations."+origin]++
		// deterministic: evaluating the same expression again in the same scope gives the same
		// value and the same diagnostics (an error is not reported only the first time)
		var v2 cty.Value
		var diags2 hcl.Diagnostics
		if c := protect(func() { v2, diags2 = e.Value(sc.ctx) }); c == nil {
			if diagKeys(diags) != diagKeys(diags2) || vfmt.V(v) != vfmt.V(v2) {
				r.failf("c15.eval-not-repeatable."+origin, "Value(%s scope) of a %s expression (range %s) called twice: first %s with diagnostics %s, then %s with diagnostics %s", sc.name, origin, rstr(e.Range()), vfmt.V(v), diagDump(diags, true), vfmt.V(v2), diagDump(diags2, true))
			}
		}
		if parseOK {
			// The property demands in-bounds ranges for evaluating error-free
			// parse results; for partial results only panic-freedom is checked.
			r.checkDiags("eval."+origin, diags)
		}
		if sc.name == "typical" {
			typical = vfmt.V(v)
			if diags.HasErrors() {
				typical = "E:" + diags[0].Summary
			}
			if len(typical) > 60 {
				typical = typical[:60]
			}
		}
	}
	return typical
}
