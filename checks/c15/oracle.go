package main

import (
	stdjson "encoding/json"
	"fmt"
	"reflect"
	"runtime"
	"sort"
	"strings"
	"unicode/utf8"

	"github.com/hashicorp/hcl/v2"
	"github.com/hashicorp/hcl/v2/hclsyntax"
	"github.com/hashicorp/hcl/v2/hclwrite"
	hcljson "github.com/hashicorp/hcl/v2/json"
	"github.com/zclconf/go-cty/cty"

	"verif/vfmt"
)

type fail struct{ class, msg string }

type runner struct {
	src   []byte
	n     int
	sig   strings.Builder
	cnt   map[string]int64
	fails []fail
}

func (r *runner) failf(class, format string, a ...any) {
	if len(r.fails) < 16 {
		r.fails = append(r.fails, fail{class, fmt.Sprintf(format, a...)})
	}
}

// ---------------------------------------------------------------------------
// panic containment

type caught struct {
	val    any
	frame  string // innermost hashicorp/hcl function on the panicking stack
	frames string
}

const hclPrefix = "github.com/hashicorp/hcl/v2"

func protect(f func()) (c *caught) {
	defer func() {
		if rv := recover(); rv != nil {
			c = &caught{val: rv, frame: "unknown"}
			pcs := make([]uintptr, 48)
			n := runtime.Callers(2, pcs)
			fr := runtime.CallersFrames(pcs[:n])
			var lines []string
			for {
				f, more := fr.Next()
				if strings.HasPrefix(f.Function, hclPrefix) {
					short := strings.TrimPrefix(strings.TrimPrefix(f.Function, hclPrefix), "/")
					if c.frame == "unknown" {
						c.frame = short
					}
					if len(lines) < 6 {
						file := f.File
						if i := strings.LastIndex(file, "/"); i >= 0 {
							file = file[i+1:]
						}
						lines = append(lines, fmt.Sprintf("%s (%s:%d)", short, file, f.Line))
					}
				}
				if !more {
					break
				}
			}
			c.frames = strings.Join(lines, " <- ")
		}
	}()
	f()
	return nil
}

// ---------------------------------------------------------------------------
// diagnostics

func rangeProblem(r *hcl.Range, n int) (kind, msg string) {
	if r.Start.Byte < 0 || r.End.Byte < r.Start.Byte || r.End.Byte > n {
		return "range-out-of-bounds", fmt.Sprintf("byte range [%d,%d) is not within [0,%d]", r.Start.Byte, r.End.Byte, n)
	}
	if r.Start.Line < 1 || r.Start.Column < 1 || r.End.Line < 1 || r.End.Column < 1 {
		return "range-line-column", fmt.Sprintf("range %d:%d-%d:%d has a line or column below 1", r.Start.Line, r.Start.Column, r.End.Line, r.End.Column)
	}
	return "", ""
}

// diagFamily maps an entry point to the parser it shares with others, so
// that one defect in a shared parser gets one class.
func diagFamily(stage string) string {
	switch stage {
	case "LexConfig", "LexExpression", "LexTemplate":
		return "lex"
	case "hclsyntax.ParseConfig", "hclwrite.ParseConfig":
		return "native-config"
	case "hclsyntax.ParseTraversalAbs", "hclsyntax.ParseTraversalPartial":
		return "native-traversal"
	case "json.Parse", "json.ParseExpression":
		return "json-parse"
	}
	return stage
}

// checkDiags applies the well-formedness clause to every diagnostic.
func (r *runner) checkDiags(stage string, diags hcl.Diagnostics) {
	stage = diagFamily(stage)
	for _, d := range diags {
		if d == nil {
			r.failf("c15.diag.nil."+stage, "%s returned a nil *Diagnostic", stage)
			continue
		}
		if d.Severity != hcl.DiagError && d.Severity != hcl.DiagWarning {
			r.failf("c15.diag.bad-severity."+stage+"."+slug(d.Summary), "%s: diagnostic %q has severity %d", stage, d.Summary, d.Severity)
		}
		if d.Summary == "" {
			r.failf("c15.diag.empty-summary."+stage, "%s: diagnostic with empty summary (detail %q)", stage, d.Detail)
		}
		for i, rng := range []*hcl.Range{d.Subject, d.Context} {
			if rng == nil {
				continue
			}
			if kind, msg := rangeProblem(rng, r.n); kind != "" {
				which := "subject"
				if i == 1 {
					which = "context"
				}
				class := "c15.diag." + kind + "." + stage + "." + slug(d.Summary)
				if kind == "range-out-of-bounds" && strings.HasSuffix(stage, ".json") && !utf8.Valid(r.src) {
					// One cause, many summaries: positions inside a JSON string
					// are computed on the DECODED string, and decoding replaces
					// each ill-formed byte by the 3-byte U+FFFD.
					class = "c15.diag.range-out-of-bounds.json-string-template.ill-formed-utf8-source"
				}
				r.failf(class, "%s: %s of diagnostic %q (%s): %s (input length %d)", stage, which, d.Summary, d.Detail, msg, r.n)
			}
		}
	}
}

func diagLine(d *hcl.Diagnostic) string {
	if d == nil {
		return "<nil>"
	}
	rs := func(r *hcl.Range) string {
		if r == nil {
			return "-"
		}
		return fmt.Sprintf("%s:%d,%d,%d-%d,%d,%d", r.Filename, r.Start.Line, r.Start.Column, r.Start.Byte, r.End.Line, r.End.Column, r.End.Byte)
	}
	return fmt.Sprintf("%d|%s|%s|%s|%s", d.Severity, d.Summary, d.Detail, rs(d.Subject), rs(d.Context))
}

func diagDump(diags hcl.Diagnostics, sorted bool) string {
	lines := make([]string, len(diags))
	for i, d := range diags {
		lines[i] = diagLine(d)
	}
	if sorted {
		sort.Strings(lines)
	}
	return strings.Join(lines, "\n")
}

// ---------------------------------------------------------------------------
// generic two-run stage

type obs struct {
	dump  string
	diags hcl.Diagnostics
	res   any
	fail  *fail
}

// stage calls an entry point twice, demands no panic, identical observable
// results and well-formed diagnostics; it returns the first observation and
// whether there is one (false after a panic or a nil result).
func (r *runner) stage(name string, call func() obs) (obs, bool) {
	// Two calls; six when the input is rejected (diagnostic texts are where
	// map-iteration-order dependence shows, and a difference must show up
	// reliably so that the verdict itself is reproducible).
	var o [6]obs
	calls := 2
	for i := 0; i < calls; i++ {
		i := i
		if c := protect(func() { o[i] = call() }); c != nil {
			r.failf("c15.panic.parse."+name+"@"+c.frame, "%s panicked: %v [%s]", name, c.val, c.frames)
			return obs{}, false
		}
		if o[i].fail != nil {
			r.fails = append(r.fails, *o[i].fail)
			return obs{}, false
		}
		if i == 0 && o[0].diags.HasErrors() {
			calls = len(o)
		}
	}
	for i := 1; i < calls; i++ {
		if o[0].dump != o[i].dump {
			r.failf("c15.nondeterministic.result."+name, "%s returned different results for the same bytes:\n%s\n--- vs ---\n%s", name, o[0].dump, o[i].dump)
			break
		}
		if d0, d1 := diagDump(o[0].diags, false), diagDump(o[i].diags, false); d0 != d1 {
			r.failf("c15.nondeterministic.diags."+name, "%s returned different diagnostics for the same bytes:\n%s\n--- vs ---\n%s", name, d0, d1)
			break
		}
	}
	r.checkDiags(name, o[0].diags)
	// signature: outcome of this entry point
	if o[0].diags.HasErrors() {
		fmt.Fprintf(&r.sig, "%s:E%d:%s;", name, len(o[0].diags), o[0].diags[0].Summary)
		r.cnt["rejected."+name]++
	} else {
		fmt.Fprintf(&r.sig, "%s:ok%d;", name, len(o[0].diags))
		r.cnt["accepted."+name]++
	}
	return o[0], true
}

func isNilIface(v any) bool {
	if v == nil {
		return true
	}
	rv := reflect.ValueOf(v)
	switch rv.Kind() {
	case reflect.Ptr, reflect.Map, reflect.Slice, reflect.Interface, reflect.Func:
		return rv.IsNil()
	}
	return false
}

// ---------------------------------------------------------------------------
// structural dumps of native results

func rstr(r hcl.Range) string {
	return fmt.Sprintf("%d-%d", r.Start.Byte, r.End.Byte)
}

type exprInfo struct {
	ese bool // an ExprSyntaxError node is reachable
}

func dumpExpr(sb *strings.Builder, e hclsyntax.Expression, info *exprInfo) {
	hclsyntax.VisitAll(e, func(n hclsyntax.Node) hcl.Diagnostics {
		fmt.Fprintf(sb, "%T@%s ", n, rstr(n.Range()))
		switch t := n.(type) {
		case *hclsyntax.ExprSyntaxError:
			info.ese = true
		case *hclsyntax.LiteralValueExpr:
			sb.WriteString(vfmt.V(t.Val) + " ")
		case *hclsyntax.ScopeTraversalExpr:
			fmt.Fprintf(sb, "%s/%d ", t.Traversal.RootName(), len(t.Traversal))
		case *hclsyntax.FunctionCallExpr:
			fmt.Fprintf(sb, "%s/%v ", t.Name, t.ExpandFinal)
		}
		return nil
	})
}

// dumpBody renders attribute names, block types/labels and expression trees
// recursively (attributes in name order: the AST keeps them in a Go map).
func dumpBody(sb *strings.Builder, b *hclsyntax.Body, info *exprInfo, nilProblem *string, depth int) {
	if b == nil {
		sb.WriteString("<nil body>")
		if *nilProblem == "" {
			*nilProblem = "a block has a nil Body"
		}
		return
	}
	fmt.Fprintf(sb, "body@%s{", rstr(b.SrcRange))
	names := make([]string, 0, len(b.Attributes))
	for k := range b.Attributes {
		names = append(names, k)
	}
	sort.Strings(names)
	for _, k := range names {
		a := b.Attributes[k]
		if a == nil {
			*nilProblem = "nil *Attribute " + k
			continue
		}
		fmt.Fprintf(sb, "attr %s/%s@%s name@%s =", k, a.Name, rstr(a.SrcRange), rstr(a.NameRange))
		if isNilIface(a.Expr) {
			sb.WriteString("<nil expr>")
			if *nilProblem == "" {
				*nilProblem = "attribute " + k + " has a nil Expr"
			}
			continue
		}
		dumpExpr(sb, a.Expr, info)
		sb.WriteString(";")
	}
	for _, blk := range b.Blocks {
		if blk == nil {
			*nilProblem = "nil *Block"
			continue
		}
		fmt.Fprintf(sb, "block %s %q@%s ", blk.Type, blk.Labels, rstr(blk.Range()))
		if depth < 64 {
			dumpBody(sb, blk.Body, info, nilProblem, depth+1)
		}
	}
	sb.WriteString("}")
}

func dumpTraversal(sb *strings.Builder, t hcl.Traversal) {
	for _, s := range t {
		switch st := s.(type) {
		case hcl.TraverseRoot:
			fmt.Fprintf(sb, "root %s@%s ", st.Name, rstr(st.SrcRange))
		case hcl.TraverseAttr:
			fmt.Fprintf(sb, "attr %s@%s ", st.Name, rstr(st.SrcRange))
		case hcl.TraverseIndex:
			fmt.Fprintf(sb, "index %s@%s ", vfmt.V(st.Key), rstr(st.SrcRange))
		case hcl.TraverseSplat:
			fmt.Fprintf(sb, "splat@%s ", rstr(st.SrcRange))
		default:
			fmt.Fprintf(sb, "%T ", s)
		}
	}
}

// dumpJSONExpr renders the static structure of a JSON expression through the
// public static-analysis interfaces plus its literal-mode value.
func dumpJSONExpr(sb *strings.Builder, e hcl.Expression, depth int) {
	fmt.Fprintf(sb, "x@%s", rstr(e.Range()))
	if depth > 64 {
		return
	}
	if pairs, d := hcl.ExprMap(e); !d.HasErrors() {
		sb.WriteString("{")
		for _, p := range pairs {
			dumpJSONExpr(sb, p.Key, depth+1)
			sb.WriteString(":")
			dumpJSONExpr(sb, p.Value, depth+1)
			sb.WriteString(",")
		}
		sb.WriteString("}")
		return
	}
	if list, d := hcl.ExprList(e); !d.HasErrors() {
		sb.WriteString("[")
		for _, x := range list {
			dumpJSONExpr(sb, x, depth+1)
			sb.WriteString(",")
		}
		sb.WriteString("]")
		return
	}
	v, d := e.Value(nil)
	fmt.Fprintf(sb, "=%s/%d", vfmt.V(v), len(d))
}

func dumpHCLBody(sb *strings.Builder, b hcl.Body) {
	attrs, d := b.JustAttributes()
	names := make([]string, 0, len(attrs))
	for k := range attrs {
		names = append(names, k)
	}
	sort.Strings(names)
	fmt.Fprintf(sb, "attrs(%d diags)", len(d))
	for _, k := range names {
		fmt.Fprintf(sb, " %s@%s=", k, rstr(attrs[k].Range))
		dumpJSONExpr(sb, attrs[k].Expr, 0)
	}
}

func dumpWriteBody(sb *strings.Builder, b *hclwrite.Body, depth int) {
	if b == nil {
		sb.WriteString("<nil>")
		return
	}
	attrs := b.Attributes()
	names := make([]string, 0, len(attrs))
	for k := range attrs {
		names = append(names, k)
	}
	sort.Strings(names)
	sb.WriteString("{")
	for _, k := range names {
		fmt.Fprintf(sb, "attr %s=%q;", k, attrs[k].Expr().BuildTokens(nil).Bytes())
	}
	for _, blk := range b.Blocks() {
		fmt.Fprintf(sb, "block %s %q ", blk.Type(), blk.Labels())
		if depth < 64 {
			dumpWriteBody(sb, blk.Body(), depth+1)
		}
	}
	sb.WriteString("}")
}

// ---------------------------------------------------------------------------
// token streams

var badTokenTypes = map[hclsyntax.TokenType]bool{
	hclsyntax.TokenInvalid: true, hclsyntax.TokenBadUTF8: true, hclsyntax.TokenQuotedNewline: true,
	hclsyntax.TokenBitwiseAnd: true, hclsyntax.TokenBitwiseOr: true, hclsyntax.TokenBitwiseNot: true, hclsyntax.TokenBitwiseXor: true,
	hclsyntax.TokenStarStar: true, hclsyntax.TokenApostrophe: true, hclsyntax.TokenBacktick: true, hclsyntax.TokenSemicolon: true,
	hclsyntax.TokenTabs: true, hclsyntax.TokenNil: true,
}

func (r *runner) lexStage(name string, lex func([]byte, string, hcl.Pos) (hclsyntax.Tokens, hcl.Diagnostics)) {
	o, _ := r.stage(name, func() obs {
		toks, diags := lex(r.src, "t.hcl", hcl.InitialPos)
		var sb strings.Builder
		for _, t := range toks {
			fmt.Fprintf(&sb, "%c%s ", rune(t.Type), rstr(t.Range))
		}
		return obs{dump: sb.String(), diags: diags, res: toks}
	})
	toks, _ := o.res.(hclsyntax.Tokens)
	if toks == nil {
		return
	}
	if name == "LexConfig" {
		// signature: the token types seen
		for _, t := range toks {
			r.sig.WriteRune(rune(t.Type))
		}
		r.sig.WriteByte(';')
	}
	for _, t := range toks {
		if badTokenTypes[t.Type] && !o.diags.HasErrors() {
			r.failf("c15.unusable-without-error."+name, "%s produced a %s token at bytes %s but no error diagnostic", name, t.Type, rstr(t.Range))
			break
		}
	}
}

// ---------------------------------------------------------------------------
// the whole pipeline for one input

func (r *runner) runAll() {
	src := r.src

	r.lexStage("LexConfig", hclsyntax.LexConfig)
	r.lexStage("LexExpression", hclsyntax.LexExpression)
	r.lexStage("LexTemplate", hclsyntax.LexTemplate)

	// --- hclsyntax.ParseConfig
	{
		var info exprInfo
		o, _ := r.stage("hclsyntax.ParseConfig", func() obs {
			info = exprInfo{}
			f, diags := hclsyntax.ParseConfig(src, "t.hcl", hcl.InitialPos)
			if f == nil || isNilIface(f.Body) {
				return obs{fail: &fail{"c15.nil-result.hclsyntax.ParseConfig", "hclsyntax.ParseConfig returned a nil file or body"}}
			}
			body, isBody := f.Body.(*hclsyntax.Body)
			if !isBody {
				return obs{fail: &fail{"c15.nil-result.hclsyntax.ParseConfig", fmt.Sprintf("body has dynamic type %T, documented as *hclsyntax.Body", f.Body)}}
			}
			var sb strings.Builder
			nilProblem := ""
			dumpBody(&sb, body, &info, &nilProblem, 0)
			if nilProblem != "" {
				return obs{fail: &fail{"c15.nil-result.hclsyntax.ParseConfig.inner", "hclsyntax.ParseConfig: " + nilProblem + " (diagnostics: " + diags.Error() + ")"}}
			}
			return obs{dump: sb.String(), diags: diags, res: f}
		})
		if f, _ := o.res.(*hcl.File); f != nil {
			if info.ese {
				r.cnt["expr_syntax_error_nodes.config"]++
				if !o.diags.HasErrors() {
					r.failf("c15.unusable-without-error.hclsyntax.ParseConfig", "the body contains an ExprSyntaxError node but ParseConfig returned no error diagnostic")
				}
			}
			body := f.Body.(*hclsyntax.Body)
			if o.diags.HasErrors() && (len(body.Attributes) > 0 || len(body.Blocks) > 0) {
				r.cnt["partial_bodies_with_content.native"]++
			}
			r.applySchemas("native", f.Body, 0, !o.diags.HasErrors())
			r.evalSyntaxBody(body, !o.diags.HasErrors(), 0)
			fmt.Fprintf(&r.sig, "[%da%db]", len(body.Attributes), len(body.Blocks))
		}
	}

	// --- hclsyntax.ParseExpression / ParseTemplate
	for _, ep := range []struct {
		name string
		fn   func([]byte, string, hcl.Pos) (hclsyntax.Expression, hcl.Diagnostics)
	}{{"hclsyntax.ParseExpression", hclsyntax.ParseExpression}, {"hclsyntax.ParseTemplate", hclsyntax.ParseTemplate}} {
		ep := ep
		var info exprInfo
		o, _ := r.stage(ep.name, func() obs {
			info = exprInfo{}
			e, diags := ep.fn(src, "t.hcl", hcl.InitialPos)
			if isNilIface(e) {
				return obs{fail: &fail{"c15.nil-result." + ep.name, ep.name + " returned a nil expression (diagnostics: " + diags.Error() + ")"}}
			}
			var sb strings.Builder
			dumpExpr(&sb, e, &info)
			return obs{dump: sb.String(), diags: diags, res: e}
		})
		if e, _ := o.res.(hclsyntax.Expression); e != nil {
			if info.ese {
				r.cnt["expr_syntax_error_nodes.expr"]++
				if !o.diags.HasErrors() {
					r.failf("c15.unusable-without-error."+ep.name, "the expression contains an ExprSyntaxError node but %s returned no error diagnostic", ep.name)
				}
			}
			r.staticAnalysis("native", e, !o.diags.HasErrors())
			tv := r.evalExpr("native", e, !o.diags.HasErrors())
			if !o.diags.HasErrors() {
				r.sig.WriteString("=" + tv + ";")
			}
		}
	}

	// --- hclsyntax.ParseTraversalAbs / ParseTraversalPartial
	for _, ep := range []struct {
		name    string
		fn      func([]byte, string, hcl.Pos) (hcl.Traversal, hcl.Diagnostics)
		partial bool
	}{{"hclsyntax.ParseTraversalAbs", hclsyntax.ParseTraversalAbs, false}, {"hclsyntax.ParseTraversalPartial", hclsyntax.ParseTraversalPartial, true}} {
		ep := ep
		o, ran := r.stage(ep.name, func() obs {
			t, diags := ep.fn(src, "t.hcl", hcl.InitialPos)
			var sb strings.Builder
			dumpTraversal(&sb, t)
			return obs{dump: sb.String(), diags: diags, res: t}
		})
		t, _ := o.res.(hcl.Traversal)
		if ran {
			if !o.diags.HasErrors() {
				// an accepted traversal must be usable: non-empty, rooted
				hasSplat := false
				usable := len(t) > 0
				if usable {
					if _, isRoot := t[0].(hcl.TraverseRoot); !isRoot {
						usable = false
					}
				}
				for _, s := range t {
					if isNilIface(s) {
						usable = false
					}
					if _, sp := s.(hcl.TraverseSplat); sp {
						hasSplat = true
					}
				}
				if !usable {
					r.failf("c15.unusable-without-error."+ep.name, "%s returned no error but the traversal is empty, unrooted or has a nil step: %#v", ep.name, t)
				} else if hasSplat && !ep.partial {
					r.failf("c15.unusable-without-error."+ep.name, "%s returned a splat step without an error", ep.name)
				} else {
					r.sig.WriteString(o.dump + ";")
					r.useTraversal(ep.name, t, hasSplat)
				}
			}
		}
	}

	// --- json.Parse
	{
		o, _ := r.stage("json.Parse", func() obs {
			f, diags := hcljson.Parse(src, "t.json")
			if f == nil || isNilIface(f.Body) {
				return obs{fail: &fail{"c15.nil-result.json.Parse", "json.Parse returned a nil file or body"}}
			}
			var sb strings.Builder
			dumpHCLBody(&sb, f.Body)
			return obs{dump: sb.String(), diags: diags, res: f}
		})
		if f, _ := o.res.(*hcl.File); f != nil {
			if !o.diags.HasErrors() && !stdjson.Valid(src) {
				r.failf("c15.unusable-without-error.json.Parse", "json.Parse returned no error for a text that is not JSON")
			}
			r.applySchemas("json", f.Body, 0, !o.diags.HasErrors())
		}
	}

	// --- json.ParseExpression
	{
		o, _ := r.stage("json.ParseExpression", func() obs {
			e, diags := hcljson.ParseExpression(src, "t.json")
			if isNilIface(e) {
				return obs{fail: &fail{"c15.nil-result.json.ParseExpression", "json.ParseExpression returned a nil expression"}}
			}
			var sb strings.Builder
			dumpJSONExpr(&sb, e, 0)
			return obs{dump: sb.String(), diags: diags, res: e}
		})
		if e, _ := o.res.(hcl.Expression); e != nil {
			if !o.diags.HasErrors() && !stdjson.Valid(src) {
				r.failf("c15.unusable-without-error.json.ParseExpression", "json.ParseExpression returned no error for a text that is not JSON")
			}
			r.staticAnalysis("json", e, !o.diags.HasErrors())
			tv := r.evalExpr("json", e, !o.diags.HasErrors())
			if !o.diags.HasErrors() {
				r.sig.WriteString("=" + tv + ";")
			}
		}
	}

	// --- hclwrite.ParseConfig
	{
		o, _ := r.stage("hclwrite.ParseConfig", func() obs {
			f, diags := hclwrite.ParseConfig(src, "t.hcl", hcl.InitialPos)
			if f == nil {
				if !diags.HasErrors() {
					return obs{fail: &fail{"c15.unusable-without-error.hclwrite.ParseConfig", "hclwrite.ParseConfig returned a nil file and no error diagnostic"}}
				}
				return obs{dump: "<nil file>", diags: diags}
			}
			var sb strings.Builder
			fmt.Fprintf(&sb, "%q ", f.Bytes())
			if f.Body() == nil {
				return obs{fail: &fail{"c15.nil-result.hclwrite.ParseConfig", "hclwrite.ParseConfig returned a file with a nil Body()"}}
			}
			dumpWriteBody(&sb, f.Body(), 0)
			return obs{dump: sb.String(), diags: diags, res: f}
		})
		_ = o
	}

	// --- hclwrite.Format
	r.stage("hclwrite.Format", func() obs {
		out := hclwrite.Format(src)
		return obs{dump: string(out)}
	})
}

// useTraversal exercises an accepted traversal in every scope.
func (r *runner) useTraversal(name string, t hcl.Traversal, hasSplat bool) {
	if c := protect(func() {
		_ = t.RootName()
		_ = t.IsRelative()
		_ = t.SimpleSplit()
		_ = t.SourceRange()
	}); c != nil {
		r.failf("c15.panic.traversal-use."+name+"@"+c.frame, "using the traversal accepted by %s panicked: %v [%s]", name, c.val, c.frames)
		return
	}
	if hasSplat {
		return // documented: cannot be traversed automatically
	}
	for _, sc := range ctxs {
		var diags hcl.Diagnostics
		if c := protect(func() { _, diags = t.TraverseAbs(sc.ctx) }); c != nil {
			r.failf("c15.panic.traverse."+sc.name+"@"+c.frame, "TraverseAbs(%s scope) of the traversal accepted by %s panicked: %v [%s]", sc.name, name, c.val, c.frames)
			return
		}
		r.checkDiags("traverse", diags)
		r.cnt["evaluations.traversal"]++
	}
}

var _ = cty.NilVal
