package main

import (
	"fmt"
	"os"
	"sort"
	"strings"

	"github.com/hashicorp/hcl/v2"
	"github.com/hashicorp/hcl/v2/hclsyntax"
	hcljson "github.com/hashicorp/hcl/v2/json"

	"verif/engine"
)

// byte alphabet of domain (a): native-syntax and JSON relevant bytes.
var alphabet = []byte{
	'{', '}', '[', ']', '(', ')', '"', '$', '%', '~', '<', '-', '=', '#', '/', '*', '.', ',', ':', '?', '!',
	'a', '1', '\\', ' ', '\n', '\r', 0x00, 0x80, 0xc3, 0xff,
	'e', // exponent marker: 1e, 1e-, 1.e- ...
}

// damage alphabet of domain (b): what a token is replaced by / what is
// inserted in front of a token.
var damage = []string{
	"(", ")", "[", "]", "{", "}", "\"", "${", "%{", "~}", "${~", "$${",
	"<<EOT\n", "<<-EOT\n", "EOT", "\nEOT\n",
	"for", "if", "in", "else", "endif", "endfor", "null",
	"fi", "fr", "elif", "elsif", "endfi", "endfro", "ni", "nul", // misspelt keywords (close to two or more real ones)
	"?", ":", "=>", "...", "::", ".", ",", "=", "==", "&&", "||", "!", "-", "*", "/", ".*", "[*]",
	"#", "/*", "\\", "\n", "\r\n", "\xff", "\x00", "a", "1",
	// escape sequences (meaningful where the edit lands inside a quoted string): surrogate halves,
	// beyond the last code point, too few digits, unknown escape
	`\ud800`, `\U0000DFFF`, `\U00110000`, `\u12`, `\q`, `\t`,
	"e-", "E+", "0x", // identifier-like fragments that look like the tail of a number
}

const doubleEditMaxTokens = 12

type entry struct {
	kind string // config | expr | template | json
	src  string
}

// exprs are valid native expressions over the variables of the typical scope
// (see ctxs): a string, b number, c bool, l list, m map, o object, t tuple,
// n null, s set, v string, e empty list; functions upper, length, join, min,
// concat, ns::upper.
var exprAtoms = []string{
	`a`, `1`, `"s"`, `true`, `null`, `1.5e3`, `0 .e-5`,
	`o.a`, `o.l[0].n`, `l[0]`, `m["k"]`, `t[b]`, `l.0`, `o.f.g`,
	`o.l.*.n`, `o.l[*].n`, `l[*]`, `o.l[*].n[0]`,
	`b + 1 * 2`, `-b`, `!c`, `b == 2 && c || !c`, `(b)`, `b % 2 >= 1`, `b / 0`, `b != 1`,
	`b > 1 ? a : "z"`, `c ? l : e`, `a == null ? "n" : a`,
	`upper(a)`, `length(l)`, `min(1, b, t[1])`, `min(e...)`, `concat(l, l...)`, `ns::upper(a)`, `join(",", l)`,
	`[1, a, true]`, "[\n  1,\n  2,\n]", `{x = 1, y = a}`, "{\n  x = 1\n  \"y\" = 2\n  (v) = 3\n}", `{x: 1}`,
	`{a = {b = [1, {c = "d"}]}}`,
	`[for x in l : upper(x)]`, `[for i, x in l : "${i}=${x}" if x != "y"]`, `{for k, x in m : k => x}`, `{for x in l : x => x...}`,
	`"a${a}b"`, `"${a}"`, `"%{ if c }y%{ else }n%{ endif }"`, `"%{ for x in l ~}${x},%{ endfor ~}"`, `"a ${~ a ~} b"`,
	`"$${a} %%{x} \n\t\"\\ é"`, `"é${"in ${b}"}"`,
	"<<EOT\nhello ${a}\nEOT\n", "<<-EOT\n  x\n    ${a}\n  EOT\n", "<<EOT\n%{ for x in l ~}\n- ${x}\n%{ endfor ~}\nEOT\n",
	"<<EOT\n%{ if c }\ny\n%{ else }\nn\n%{ endif }\nEOT\n",
	`a /* c */ + 1`, `l[length(l) - 1]`, `o["a"]`, `upper(l[0])[0]`,
}

var templates = []string{
	`hello`, `a${a}b`, `${a}`, `%{ if c }y%{ else }n%{ endif }`, `%{ for x in l ~} ${x} %{~ endfor }`,
	`x ${~ a ~} y`, `$${a}`, `%%{ x`, "line1\nline2 ${b}\n", `${upper(a)}${length(l)}`,
	`%{ if c ~} a %{~ else ~} b %{~ endif ~}`, `%{for i, x in l}${i}${x}%{endfor}`, `${"nested ${a}"}`,
	`${o.l[*].n[0]}`, `%{ if c }%{ for x in l }${x}%{ endfor }%{ endif }`,
}

var configs = []string{
	"", "a = 1\n", "a = 1\nb = \"x\"\n", "blk {}\n", "blk {\n}\n", "blk { a = 1 }\n",
	"b1 \"x\" {\n  a = 1\n}\n",
	"b2 \"x\" \"y\" {\n  a = b\n  blk {\n    b = a\n  }\n}\n",
	"b1 x {\n}\n",
	"# comment\na = 1 // c\n/* block */ b = 2\n",
	"blk {\n  blk {\n    blk {\n      a = 1\n    }\n  }\n}\n",
	"a = 1\r\nb = 2\r\n",
	"a = [\n  1,\n  2,\n]\nb = {\n  x = 1\n}\n",
	"a = <<EOT\nfoo\nEOT\nb = 1\n",
	"b1 \"x\" {\n  a = <<-EOT\n    foo ${b}\n    EOT\n}\n",
	"\xef\xbb\xbfa = 1\n",
	"blk {\n  a = 1\n}\nblk {\n  a = 2\n}\nb1 \"x\" {\n}\nb1 \"y\" {\n}\n",
	"a = 1\nblk { b = [for x in l : x] }\n",
	"a = upper(a)\nb2 \"x\" \"y z\" {\n}\n",
}

var jsonDocs = []string{
	`{}`, `[]`, `{"a":1}`, `{"a":"${a}","b":[1,true,null]}`, `{"blk":{"a":1}}`, `{"blk":[{"a":1},{"b":2}]}`,
	`{"b1":{"x":{"a":"${b}"}}}`, `{"b2":{"x":{"y":{"a":1,"blk":{}}}}}`, `{"b1":[{"x":{}},{"x":[{},{}]}]}`,
	`{"//":"comment","a":1}`, `{"a":"%{ if c }y%{ else }n%{ endif }"}`, `{"a":{"${v}":1}}`, `{"a":{"k":"${a}","${a}":2}}`,
	`[{"a":1},{"b":2}]`, `{"a":"é\n\"${a}\""}`, `{"a":1.5e3,"b":-0}`, `{"a":null,"b":false}`,
	" {\n  \"a\" : [ 1 , 2 ]\n}\n",
	`"${a}"`, `"o.l[0]"`, `1`, `true`, `null`, `["${l}",{"x":"${o.l[*].n}"}]`, `{"${v}":1}`, `"upper(a)"`,
	`"%{ for x in l ~}${x}%{ endfor }"`, `{"a":"${upper(a)}","b":{"c":["${t[1]}"]}}`,
}

var corpusCache []entry

func corpus() []entry {
	if corpusCache != nil {
		return corpusCache
	}
	var out []entry
	for _, c := range configs {
		out = append(out, entry{"config", c})
	}
	for i, e := range exprAtoms {
		out = append(out, entry{"expr", e})
		// every expression also as an attribute value, alternating between
		// top level, a one-label block and a nested block
		ee := strings.TrimSuffix(e, "\n")
		switch i % 3 {
		case 0:
			out = append(out, entry{"config", "a = " + ee + "\n"})
		case 1:
			out = append(out, entry{"config", "b1 \"x\" {\n  a = " + ee + "\n}\n"})
		case 2:
			out = append(out, entry{"config", "blk {\n  blk {\n    b = " + ee + "\n  }\n}\n"})
		}
	}
	// compositions: binary/conditional/index/call/splat around pairs of atoms
	small := []string{`a`, `b`, `l`, `o.l`, `"x${a}"`, `[b]`, `{k = a}`, `upper(a)`}
	for _, x := range small {
		for _, y := range small[:3] {
			out = append(out, entry{"expr", x + " == " + y})
			out = append(out, entry{"expr", "c ? " + x + " : " + y})
			out = append(out, entry{"expr", "[for z in " + y + " : " + x + "]"})
		}
	}
	for _, t := range templates {
		out = append(out, entry{"template", t})
		out = append(out, entry{"config", "a = \"" + strings.ReplaceAll(t, "\n", "\\n") + "\"\n"})
	}
	// templates that already contain one erroneous directive (the parser is in recovery mode
	// when it reaches the rest): every single edit of them is an input with two damaged places
	for _, t := range []string{
		`%{ bogus }x%{ for k, v in m }${k}${v}%{ endfor }`,
		`%{ if }y%{ endif }%{ for x in l }${x}%{ endfor }${a}`,
		`${ }%{ if c }y%{ else }n%{ endif }%{ for i, x in l ~}${i}%{ endfor }`,
	} {
		out = append(out, entry{"template", t})
		out = append(out, entry{"config", "a = \"" + t + "\"\n"})
	}
	for _, j := range jsonDocs {
		out = append(out, entry{"json", j})
	}
	// smallest first
	sort.SliceStable(out, func(i, j int) bool { return len(out[i].src) < len(out[j].src) })
	corpusCache = out
	return out
}

// sizeFamily: nesting depths 21 / 25 / 60 (balanced and left open), names and
// alignment columns of 39 / 41 / 45 / 90 / 130 characters, long literals and
// long sequences, in the native syntax and in JSON. kind is a label.
func sizeFamily() []entry {
	var out []entry
	add := func(label, src string) { out = append(out, entry{label, src}) }
	for _, d := range []int{21, 25, 60} {
		var open, close string
		for i := 0; i < d; i++ {
			open += strings.Repeat("  ", i) + "b {\n"
			close = strings.Repeat("  ", i) + "}\n" + close
		}
		inner := strings.Repeat("  ", d) + "a = 1 # c\n" + strings.Repeat("  ", d) + "bbb = 2 # d\n"
		add(fmt.Sprintf("blocks-depth-%d", d), open+inner+close)
		add(fmt.Sprintf("blocks-depth-%d-open", d), open+inner)
		add(fmt.Sprintf("blocks-depth-%d-unindented", d), strings.Repeat("b {\n", d)+"a = 1\n"+strings.Repeat("}\n", d))
		add(fmt.Sprintf("brackets-depth-%d", d), "a = "+strings.Repeat("[", d)+"1"+strings.Repeat("]", d)+"\n")
		add(fmt.Sprintf("brackets-depth-%d-open", d), "a = "+strings.Repeat("[", d)+"1\n")
		add(fmt.Sprintf("brackets-depth-%d-lines", d), "a = "+strings.Repeat("[\n", d)+"1\n"+strings.Repeat("]\n", d))
		add(fmt.Sprintf("parens-depth-%d", d), "a = "+strings.Repeat("(", d)+"b"+strings.Repeat(")", d)+"\n")
		add(fmt.Sprintf("objects-depth-%d", d), "a = "+strings.Repeat("{ k = ", d)+"1"+strings.Repeat(" }", d)+"\n")
		add(fmt.Sprintf("interp-depth-%d", d), "a = "+strings.Repeat("\"${", d)+"b"+strings.Repeat("}\"", d)+"\n")
		add(fmt.Sprintf("json-depth-%d", d), strings.Repeat(`{"b":`, d)+`{"a":"${b}"}`+strings.Repeat("}", d))
		add(fmt.Sprintf("json-array-depth-%d", d), `{"a":`+strings.Repeat("[", d)+`1`+strings.Repeat("]", d)+"}")
	}
	for _, n := range []int{39, 41, 45, 90, 130} {
		name := strings.Repeat("n", n)
		add(fmt.Sprintf("align-%d", n), name+" = 1 // c\nx = 2 # d\nb {\n  "+name+" = a\n  y = 1 /* e */\n}\n")
		add(fmt.Sprintf("label-%d", n), "b1 \""+name+"\" {\n}\nb2 "+name+" \"x\" {\n}\n")
		add(fmt.Sprintf("spaces-%d", n), "a"+strings.Repeat(" ", n)+"="+strings.Repeat(" ", n)+"1"+strings.Repeat(" ", n)+"# c\n")
		add(fmt.Sprintf("traversal-%d", n), "a = o"+strings.Repeat(".f", n)+"\n")
		add(fmt.Sprintf("index-chain-%d", n), "a = l"+strings.Repeat("[0]", n)+"\n")
	}
	add("string-2000", "a = \""+strings.Repeat("x", 2000)+"\"\n")
	add("heredoc-500-lines", "a = <<EOT\n"+strings.Repeat("line ${b}\n", 500)+"EOT\n")
	add("list-500", "a = ["+strings.Repeat("1, ", 500)+"]\n")
	add("attrs-300", strings.Repeat("a = 1\n", 1)+func() string {
		var sb strings.Builder
		for i := 0; i < 300; i++ {
			fmt.Fprintf(&sb, "k%d = %d\n", i, i)
		}
		return sb.String()
	}())
	add("binary-chain-300", "a = 1"+strings.Repeat(" + b", 300)+"\n")
	add("unary-chain-300", "a = "+strings.Repeat("!", 300)+"c\n")
	add("json-array-500", `{"a":[`+strings.Repeat("1,", 499)+`1]}`)
	add("json-string-2000", `{"a":"`+strings.Repeat("x", 2000)+`"}`)
	return out
}

// invalidCorpusEntries lists corpus entries that their own front end does not
// accept (must be empty: the corpus is meant to be valid text).
func invalidCorpusEntries() []string {
	bad := []string{}
	for _, e := range corpus() {
		var diags hcl.Diagnostics
		src := []byte(e.src)
		switch e.kind {
		case "config":
			_, diags = hclsyntax.ParseConfig(src, "t.hcl", hcl.InitialPos)
		case "expr":
			_, diags = hclsyntax.ParseExpression(src, "t.hcl", hcl.InitialPos)
		case "template":
			_, diags = hclsyntax.ParseTemplate(src, "t.hcl", hcl.InitialPos)
		case "json":
			_, diags = hcljson.ParseExpression(src, "t.json")
		}
		if diags.HasErrors() {
			bad = append(bad, e.kind+":"+e.src)
		}
	}
	return bad
}

type span struct{ s, e int }

// tokenSpans gives the edit positions of a valid corpus entry. The final
// zero-width span is the end of input (insertions only).
func tokenSpans(kind string, src []byte) []span {
	var toks hclsyntax.Tokens
	func() {
		defer func() { _ = recover() }()
		if kind == "template" {
			toks, _ = hclsyntax.LexTemplate(src, "t.hcl", hcl.InitialPos)
		} else {
			toks, _ = hclsyntax.LexConfig(src, "t.hcl", hcl.InitialPos)
		}
	}()
	var out []span
	for _, t := range toks {
		s, e := t.Range.Start.Byte, t.Range.End.Byte
		if s < 0 || e > len(src) || s >= e {
			continue
		}
		out = append(out, span{s, e})
	}
	out = append(out, span{len(src), len(src)})
	return out
}

func isWord(s string) bool {
	for _, r := range s {
		if !(r >= 'a' && r <= 'z') {
			return false
		}
	}
	return s != ""
}

type edit struct {
	id  string
	src []byte
}

// singleEdits enumerates every single token-level edit of src in a fixed
// order: per token delete, duplicate, replace by each damage element, insert
// each damage element in front of it.
func singleEdits(kind string, src []byte, yield func(edit) bool) bool {
	spans := tokenSpans(kind, src)
	cat := func(parts ...[]byte) []byte {
		var b []byte
		for _, p := range parts {
			b = append(b, p...)
		}
		return b
	}
	for ti, sp := range spans {
		if sp.s < sp.e {
			if !yield(edit{fmt.Sprintf("d%d", ti), cat(src[:sp.s], src[sp.e:])}) {
				return false
			}
			if !yield(edit{fmt.Sprintf("u%d", ti), cat(src[:sp.e], src[sp.s:sp.e], src[sp.e:])}) {
				return false
			}
			for di, d := range damage {
				if string(src[sp.s:sp.e]) == d {
					continue
				}
				if !yield(edit{fmt.Sprintf("r%d.%d", ti, di), cat(src[:sp.s], []byte(d), src[sp.e:])}) {
					return false
				}
			}
		}
		for di, d := range damage {
			ins := d
			if isWord(d) {
				ins = d + " " // keep an inserted keyword a separate token
			}
			if !yield(edit{fmt.Sprintf("i%d.%d", ti, di), cat(src[:sp.s], []byte(ins), src[sp.s:])}) {
				return false
			}
		}
	}
	return true
}

func gen(tier string, emit func(engine.Case) bool) {
	if os.Getenv("C15_ONLY") == "history" { // development aid: only family (c)
		genHistory(emit)
		return
	}
	maxLen := 3
	if tier == "thorough" {
		maxLen = 4
	}
	buf := make([]byte, 0, 8)
	var exact func(n int) bool
	exact = func(n int) bool {
		if n == 0 {
			return emit(mk(fmt.Sprintf("%x", buf), buf, "bytes"))
		}
		for _, a := range alphabet {
			buf = append(buf, a)
			ok := exact(n - 1)
			buf = buf[:len(buf)-1]
			if !ok {
				return false
			}
		}
		return true
	}
	// (a) byte strings up to length 2 first (the simplest cases)
	for l := 0; l <= 2; l++ {
		if !exact(l) {
			return
		}
	}
	// (b) corpus entries unchanged, then all their single edits
	ents := corpus()
	for i, e := range ents {
		if !emit(mk(fmt.Sprintf("k%d", i), []byte(e.src), "corpus:"+e.kind)) {
			return
		}
	}
	// (d) size family: the same constructs at sizes beyond every fixed-size
	// buffer and small-count assumption of the front ends (unchanged, no edits)
	for _, e := range sizeFamily() {
		if !emit(mk("size:"+e.kind, []byte(e.src), "size:"+e.kind)) {
			return
		}
	}
	// (c) history family: every ordered pair of the designed items
	if !genHistory(emit) {
		return
	}
	seen := map[string]struct{}{}
	for i, e := range ents {
		ok := singleEdits(e.kind, []byte(e.src), func(ed edit) bool {
			if _, dup := seen[string(ed.src)]; dup {
				return true
			}
			seen[string(ed.src)] = struct{}{}
			return emit(mk(fmt.Sprintf("k%d:%s", i, ed.id), ed.src, "edit:"+e.kind))
		})
		if !ok {
			return
		}
	}
	seen = nil
	// (a) remaining byte strings
	for l := 3; l <= maxLen; l++ {
		if !exact(l) {
			return
		}
	}
	if tier != "thorough" {
		return
	}
	// (b') every double edit of the small entries: every single edit of every
	// single edit (the second edit uses the token boundaries of the once
	// edited text).
	for i, e := range ents {
		if len(tokenSpans(e.kind, []byte(e.src)))-1 > doubleEditMaxTokens {
			continue
		}
		ok := singleEdits(e.kind, []byte(e.src), func(e1 edit) bool {
			return singleEdits(e.kind, e1.src, func(e2 edit) bool {
				return emit(mk(fmt.Sprintf("k%d:%s+%s", i, e1.id, e2.id), e2.src, "edit2:"+e.kind))
			})
		})
		if !ok {
			return
		}
	}
}
