// C15 — All front ends are total, deterministic and report well-formed
// diagnostics.
//
// Bounded exhaustive exploration: (a) every byte string up to a length over a
// mixed native/JSON alphabet and (b) every single (thorough: also double)
// token-level edit of a generated corpus of valid native configurations,
// expressions, templates and JSON documents is fed to EVERY parsing entry
// point of the real library. Per input and entry point the oracle demands:
// no panic, a non-nil (partial) result, identical observable results when
// called twice, an error diagnostic whenever the result is unusable, and
// well-formed diagnostics whose ranges lie inside the input. Then a fixed
// family of schemas is applied to the (possibly partial) bodies and every
// reachable expression is evaluated in a fixed family of scopes (nil, empty,
// typical, all-dynamic, typed-unknown, marked, deep-marked): panic-free and
// diagnostics in bounds.
package main

import (
	"fmt"
	"os"
	"strconv"
	"strings"
	"sync/atomic"
	"time"

	"github.com/hashicorp/hcl/v2"
	"github.com/hashicorp/hcl/v2/hclsyntax"

	"verif/engine"
)

type Data struct {
	Src    []byte `json:"src"`
	Text   string `json:"text"`   // informational: %q of Src
	Origin string `json:"origin"` // informational: how the generator derived Src
	// history family (see history.go): process A then B under one filename,
	// compare with B alone. Src is unused for these cases.
	A *Item `json:"a,omitempty"`
	B *Item `json:"b,omitempty"`
}

// counters: sharded so that 16 workers flushing ~30 keys per case do not
// contend on one mutex.
var (
	counterShards [64]engine.Counter
	shardNext     atomic.Uint64
)

func flushCounters(m map[string]int64) {
	sh := &counterShards[shardNext.Add(1)%uint64(len(counterShards))]
	for k, v := range m {
		sh.Add(k, v)
	}
}

func snapshotCounters() map[string]int64 {
	out := map[string]int64{}
	for i := range counterShards {
		for k, v := range counterShards[i].Snapshot() {
			out[k] += v
		}
	}
	return out
}

func mk(id string, b []byte, origin string) engine.Case {
	c := append([]byte(nil), b...)
	return engine.Case{ID: id, Data: Data{Src: c, Text: strconv.Quote(string(c)), Origin: origin}}
}

// classes documented in FINDINGS.md, with a rank: when one case fails several
// clauses the judge reports an undocumented class first and otherwise the
// documented class of the highest rank (the least pervasive one), so that a
// recorded defect never masks a new one, nor a pervasive one a rare one.
var documented = map[string]int{
	"c15.diag.range-line-column.content.json.missing-required-argument":        1,
	"c15.diag.range-out-of-bounds.json-parse.invalid-json-string":              2,
	"c15.json-object-marked-key-panic":                                         3,
	"c15.diag.range-out-of-bounds.json-string-template.ill-formed-utf8-source": 4,
}

func judge(c engine.Case) engine.Outcome {
	d := c.Data.(Data)
	if d.A != nil && d.B != nil {
		return judgeHistory(d)
	}
	r := &runner{src: d.Src, n: len(d.Src), cnt: map[string]int64{}}
	r.runAll()
	flushCounters(r.cnt)
	if len(r.fails) > 0 {
		pick := r.fails[0]
		for _, f := range r.fails {
			rank, known := documented[f.class]
			if !known {
				pick = f
				break
			}
			if rank > documented[pick.class] {
				pick = f
			}
		}
		return engine.Fail(pick.class, "input %q: %s", d.Src, pick.msg)
	}
	return engine.Pass(r.sig.String())
}

func shrink(c engine.Case) []engine.Case {
	d := c.Data.(Data)
	if d.A != nil {
		return nil // an ordered pair of designed items is already minimal
	}
	var out []engine.Case
	seen := map[string]bool{}
	add := func(b []byte) {
		if len(b) >= len(d.Src) || seen[string(b)] {
			return
		}
		seen[string(b)] = true
		out = append(out, mk(fmt.Sprintf("%x", b), b, "shrunk"))
	}
	// drop each lexed token, then each byte (short inputs only)
	func() {
		defer func() { _ = recover() }()
		toks, _ := hclsyntax.LexConfig(d.Src, "t.hcl", hcl.InitialPos)
		for _, t := range toks {
			s, e := t.Range.Start.Byte, t.Range.End.Byte
			if s < 0 || e > len(d.Src) || s >= e {
				continue
			}
			add(append(append([]byte{}, d.Src[:s]...), d.Src[e:]...))
		}
	}()
	if len(d.Src) <= 96 {
		for i := range d.Src {
			add(append(append([]byte{}, d.Src[:i]...), d.Src[i+1:]...))
		}
	}
	return out
}

func main() {
	engine.Main(&engine.Check{
		ID:        "C15",
		Title:     "All front ends are total, deterministic and report well-formed diagnostics",
		Technique: "bounded exhaustive enumeration of byte strings, of token-level edits of a generated valid corpus and of all ordered pairs of a designed item set; invariants (totality, result shape, diagnostics well-formedness), a two-run determinism relation on every entry point and a history-independence relation (B after A == B alone)",
		Rule: fmt.Sprintf("(a) all byte strings of length <= 3 (quick) / <= 4 (thorough) over a %d-byte alphabet mixing native-syntax and JSON bytes; "+
			"(b) a generated corpus of valid native configs, expressions, templates and JSON documents with every single token-level edit: delete, duplicate, replace by / insert each of %d damage elements (brackets, quotes, template introducers and strip markers, heredoc opener/closer, keywords, operators, newline, 0xff, NUL); thorough adds every double edit of the entries with <= %d tokens (internal deadline). "+
			"(c) history family: all ordered pairs (A,B) over %d designed items (JSON expressions/bodies, native configs/expressions/templates/traversals whose string templates yield diagnostics and variable traversals, placed after nothing / ASCII / multi-byte text on the same line, on other lines, twice in one input; the same bytes with other start positions; the same input with other scopes): A then B under one fresh filename, B's complete outcome (diagnostics, structure and ranges, Variables(), static analysis, value and diagnostics per scope, schema application) must equal B alone under another fresh filename and all its ranges must lie in B's input. "+
			"Every input of (a),(b) goes to hclsyntax.LexConfig/LexExpression/LexTemplate/ParseConfig/ParseExpression/ParseTemplate/ParseTraversalAbs/ParseTraversalPartial, json.Parse/ParseExpression, hclwrite.ParseConfig/Format; bodies get %d schemas x Content/PartialContent/JustAttributes recursively; every reachable expression is evaluated in %d scopes. "+
			"Distinct = distinct vectors of per-entry-point outcomes (accepted / number of diagnostics and first summary, result shape, value in the typical scope).",
			len(alphabet), len(damage), doubleEditMaxTokens, len(historyItems()), len(schemas), len(ctxs)),
		Assumptions: []string{
			"hclsyntax.LexConfig/LexTemplate on the VALID corpus text only defines the edit positions of the generator (it is not part of the oracle)",
			"encoding/json.Valid is trusted as the recogniser of 'this text is not JSON' for the unusable-result clause of the JSON entry points",
			"go-cty values, marks and stdlib functions (upper, length, join, min, concat) are trusted",
			"diagnostics whose order derives from Go map iteration (schema application) are compared as sorted multisets",
			"history family: the library is assumed to hold no hidden state keyed by anything but filename, start position and content (each run uses a fresh filename and a fresh identifier, so concurrently judged pairs cannot disturb each other)",
		},
		Gen:    gen,
		Judge:  judge,
		Load:   engine.LoadAs[Data],
		Shrink: shrink,
		Extra: func() map[string]any {
			m := map[string]any{}
			for k, v := range snapshotCounters() {
				m[k] = v
			}
			m["corpus_entries"] = len(corpus())
			m["history_items"] = len(historyItems())
			if f := os.Getenv("C15_ONLY"); f != "" {
				m["development_filter_only_family"] = f
			}
			m["corpus_entries_not_valid_for_their_kind"] = invalidCorpusEntries()
			m["damage_alphabet"] = len(damage)
			m["byte_alphabet"] = len(alphabet)
			return m
		},
		QuickBudget:    12 * time.Minute,
		ThoroughBudget: 40 * time.Minute,
	})
}

// slug turns a diagnostic summary into a class component.
func slug(s string) string {
	var sb strings.Builder
	dash := false
	for _, r := range strings.ToLower(s) {
		if (r >= 'a' && r <= 'z') || (r >= '0' && r <= '9') {
			sb.WriteRune(r)
			dash = false
		} else if !dash && sb.Len() > 0 {
			sb.WriteByte('-')
			dash = true
		}
		if sb.Len() > 40 {
			break
		}
	}
	return strings.TrimRight(sb.String(), "-")
}
