// C03 — Native and JSON syntaxes denote the same configuration.
//
// Bounded exhaustive enumeration of abstract configurations (gen/absconf),
// each rendered once in the native syntax and in *every* admissible JSON
// encoding (the finite choice tree of absconf.Encodings), decoded with every
// hcldec spec kind of a table. The native and the JSON body must agree on
// hcldec.Decode (error presence, RawEquals value) and on
// Body.Content(ImpliedSchema(spec)) (attribute names and values, block
// sequence with labels, recursively). The reference reading of both syntaxes
// (ref/refbody, written from spec.md and json/spec.md, never calling hcl)
// decides which pairs are comparable: where json/spec.md makes the JSON
// document denote something else under that schema (attribute vs block is
// decided by the schema, label levels are decided by the schema) or is silent
// (null in block position, empty label level) nothing is demanded.
package main

import (
	"fmt"
	"os"
	"sort"
	"strings"
	"time"

	"github.com/hashicorp/hcl/v2"
	"github.com/hashicorp/hcl/v2/hcldec"
	"github.com/hashicorp/hcl/v2/hclsyntax"
	hcljson "github.com/hashicorp/hcl/v2/json"
	"github.com/zclconf/go-cty/cty"

	"verif/engine"
	"verif/gen/absconf"
	"verif/ref/refbody"
	"verif/vfmt"
)

type Data struct {
	Conf       absconf.Body `json:"conf"`
	Spec       string       `json:"spec"`
	Degenerate []string     `json:"degenerate,omitempty"`
	MaxCut     int          `json:"max_cut,omitempty"`
	DecorProd  bool         `json:"decor_product,omitempty"`
	Uniform    bool         `json:"uniform,omitempty"`
	Pinned     bool         `json:"pinned,omitempty"` // only the encoding (Decor, Policy | Choices); otherwise every encoding
	Decor      int          `json:"decor,omitempty"`
	Policy     string       `json:"policy,omitempty"`
	Choices    []int        `json:"choices,omitempty"`
	Native     string       `json:"native"`         // informational
	JSON       string       `json:"json,omitempty"` // informational (pinned encoding)
}

var counters engine.Counter

// ---------------------------------------------------------------- specs

// specNode is what one body is processed with: the hcldec spec (real side)
// and the schema / child table derived from it by describe (reference side).
type specNode struct {
	spec      hcldec.Spec
	hclSchema *hcl.BodySchema
	schema    refbody.Schema
	children  map[string]*child
}

type child struct {
	justAttrs bool // BlockAttrsSpec: the block body is read in dynamic-attributes mode
	node      *specNode
}

type specEntry struct {
	name string
	kind string
	node *specNode
	// deep: a spec for block types with 3, 4 or 5 labels; only the "deep" family
	// of configurations meets it (and that family meets only the deep specs and
	// three small ones), which keeps the table product bounded.
	deep bool
	// twice: a spec that describes the same attribute or the same block type more
	// than once; meets the families of twiceFamilies (quick) / every ordinary
	// family (thorough).
	twice bool
}

func attr(name string, ty cty.Type) *hcldec.AttrSpec { return &hcldec.AttrSpec{Name: name, Type: ty} }

var (
	dynA  = attr("a", cty.DynamicPseudoType)
	dynB  = attr("b", cty.DynamicPseudoType)
	strA  = attr("a", cty.String)
	inner = hcldec.ObjectSpec{"a": dynA}
	lab0  = &hcldec.BlockLabelSpec{Index: 0, Name: "k"}
	lab1  = &hcldec.BlockLabelSpec{Index: 1, Name: "l"}
)

func specList() []specEntry {
	type e = struct {
		name, kind string
		spec       hcldec.Spec
	}
	innerL1 := hcldec.ObjectSpec{"a": dynA, "k": lab0}
	innerL2 := hcldec.ObjectSpec{"a": dynA, "k": lab0, "l": lab1}
	yList := &hcldec.BlockListSpec{TypeName: "y", Nested: inner}
	list := []e{
		{"attr-dyn", "attr", hcldec.ObjectSpec{"a": dynA}},
		{"attr-string", "attr", hcldec.ObjectSpec{"a": strA}},
		{"attr-number", "attr", hcldec.ObjectSpec{"a": attr("a", cty.Number)}},
		{"attr-bool", "attr", hcldec.ObjectSpec{"a": attr("a", cty.Bool)}},
		{"attr-list", "attr", hcldec.ObjectSpec{"a": attr("a", cty.List(cty.String))}},
		{"attr-map", "attr", hcldec.ObjectSpec{"a": attr("a", cty.Map(cty.Number))}},
		{"attr-object", "attr", hcldec.ObjectSpec{"a": attr("a", cty.Object(map[string]cty.Type{"p": cty.Number}))}},
		{"attr-required", "attr-required", hcldec.ObjectSpec{"a": &hcldec.AttrSpec{Name: "a", Type: cty.DynamicPseudoType, Required: true}}},
		{"attr-b-required", "attr-required", hcldec.ObjectSpec{"a": dynA, "b": &hcldec.AttrSpec{Name: "b", Type: cty.DynamicPseudoType, Required: true}}},
		{"attr-ab", "attr", hcldec.ObjectSpec{"a": dynA, "b": dynB}},
		{"tuple-ab", "tuple", hcldec.TupleSpec{dynA, dynB}},
		{"default-literal", "default", hcldec.ObjectSpec{"a": &hcldec.DefaultSpec{Primary: dynA, Default: &hcldec.LiteralSpec{Value: cty.StringVal("dflt")}}}},
		{"default-attr", "default", hcldec.ObjectSpec{"a": &hcldec.DefaultSpec{Primary: dynA, Default: dynB}}},
		{"default-required", "default-required", hcldec.ObjectSpec{"a": &hcldec.DefaultSpec{Primary: &hcldec.AttrSpec{Name: "a", Type: cty.DynamicPseudoType, Required: true}, Default: &hcldec.LiteralSpec{Value: cty.StringVal("dflt")}}}},
		{"default-default-required", "default-required", hcldec.ObjectSpec{"a": &hcldec.DefaultSpec{Primary: dynA, Default: &hcldec.AttrSpec{Name: "b", Type: cty.DynamicPseudoType, Required: true}}}},
		{"literal", "literal", &hcldec.LiteralSpec{Value: cty.StringVal("lit")}},
		{"x-block", "block", hcldec.ObjectSpec{"x": &hcldec.BlockSpec{TypeName: "x", Nested: inner}}},
		{"x-block-required", "block", hcldec.ObjectSpec{"x": &hcldec.BlockSpec{TypeName: "x", Nested: inner, Required: true}}},
		{"x-list", "blocklist", hcldec.ObjectSpec{"x": &hcldec.BlockListSpec{TypeName: "x", Nested: inner}}},
		{"x-list-minmax", "blocklist", hcldec.ObjectSpec{"x": &hcldec.BlockListSpec{TypeName: "x", Nested: inner, MinItems: 1, MaxItems: 2}}},
		{"x-set", "blockset", hcldec.ObjectSpec{"x": &hcldec.BlockSetSpec{TypeName: "x", Nested: inner}}},
		{"x-tuple", "blocktuple", hcldec.ObjectSpec{"x": &hcldec.BlockTupleSpec{TypeName: "x", Nested: inner}}},
		{"x-attrs", "blockattrs", hcldec.ObjectSpec{"x": &hcldec.BlockAttrsSpec{TypeName: "x", ElementType: cty.String}}},
		{"x-attrs-required", "blockattrs", hcldec.ObjectSpec{"x": &hcldec.BlockAttrsSpec{TypeName: "x", ElementType: cty.Number, Required: true}}},
		{"x-map1", "blockmap", hcldec.ObjectSpec{"x": &hcldec.BlockMapSpec{TypeName: "x", LabelNames: []string{"k"}, Nested: hcldec.ObjectSpec{"a": strA}}}},
		{"x-map2", "blockmap", hcldec.ObjectSpec{"x": &hcldec.BlockMapSpec{TypeName: "x", LabelNames: []string{"k", "l"}, Nested: hcldec.ObjectSpec{"a": strA}}}},
		{"x-object1", "blockobject", hcldec.ObjectSpec{"x": &hcldec.BlockObjectSpec{TypeName: "x", LabelNames: []string{"k"}, Nested: inner}}},
		{"x-object2", "blockobject", hcldec.ObjectSpec{"x": &hcldec.BlockObjectSpec{TypeName: "x", LabelNames: []string{"k", "l"}, Nested: inner}}},
		{"x-list-label1", "blocklabel", hcldec.ObjectSpec{"x": &hcldec.BlockListSpec{TypeName: "x", Nested: innerL1}}},
		{"x-list-label2", "blocklabel", hcldec.ObjectSpec{"x": &hcldec.BlockListSpec{TypeName: "x", Nested: innerL2}}},
		{"x-block-label1", "blocklabel", hcldec.ObjectSpec{"x": &hcldec.BlockSpec{TypeName: "x", Nested: innerL1}}},
		{"x-tuple-label1", "blocklabel", hcldec.ObjectSpec{"x": &hcldec.BlockTupleSpec{TypeName: "x", Nested: innerL1}}},
		{"x-set-label2", "blocklabel", hcldec.ObjectSpec{"x": &hcldec.BlockSetSpec{TypeName: "x", Nested: innerL2}}},
		{"x-map1-label", "blockmap", hcldec.ObjectSpec{"x": &hcldec.BlockMapSpec{TypeName: "x", LabelNames: []string{"k"}, Nested: hcldec.ObjectSpec{"a": strA, "l": &hcldec.BlockLabelSpec{Index: 0, Name: "l"}}}}},
		{"y-list", "blocklist", hcldec.ObjectSpec{"y": yList}},
		{"xy-lists", "object", hcldec.ObjectSpec{"a": dynA, "x": &hcldec.BlockListSpec{TypeName: "x", Nested: inner}, "y": yList}},
		{"xy-labels", "object", hcldec.ObjectSpec{"x": &hcldec.BlockListSpec{TypeName: "x", Nested: innerL1}, "y": &hcldec.BlockObjectSpec{TypeName: "y", LabelNames: []string{"k"}, Nested: inner}}},
		{"xy-tuple", "tuple", hcldec.TupleSpec{&hcldec.BlockTupleSpec{TypeName: "x", Nested: inner}, &hcldec.BlockSetSpec{TypeName: "y", Nested: inner}, dynA}},
		{"all", "object", hcldec.ObjectSpec{"a": dynA, "b": dynB, "x": &hcldec.BlockListSpec{TypeName: "x", Nested: hcldec.ObjectSpec{"a": dynA, "y": yList}}, "y": yList}},
		{"nested", "nested", hcldec.ObjectSpec{"x": &hcldec.BlockListSpec{TypeName: "x", Nested: hcldec.ObjectSpec{"a": dynA, "y": yList}}}},
		{"nested-label", "nested", hcldec.ObjectSpec{"x": &hcldec.BlockListSpec{TypeName: "x", Nested: hcldec.ObjectSpec{"k": lab0, "y": &hcldec.BlockMapSpec{TypeName: "y", LabelNames: []string{"k"}, Nested: hcldec.ObjectSpec{"a": strA}}}}}},
		{"nested-attrs", "nested", hcldec.ObjectSpec{"x": &hcldec.BlockTupleSpec{TypeName: "x", Nested: hcldec.ObjectSpec{"a": dynA, "y": &hcldec.BlockAttrsSpec{TypeName: "y", ElementType: cty.String}}}}},
	}
	var out []specEntry
	for _, s := range list {
		out = append(out, specEntry{name: s.name, kind: s.kind, node: describe(s.spec)})
	}
	for _, s := range twiceList() {
		out = append(out, specEntry{name: s.name, kind: s.kind, node: describe(s.spec), twice: true})
	}
	// block types with 3, 4 and 5 labels: one BlockLabelSpec per label index, label
	// names consumed by BlockMapSpec / BlockObjectSpec, and mixtures of both
	labelsObj := func(n int, a hcldec.Spec) hcldec.ObjectSpec {
		o := hcldec.ObjectSpec{"a": a}
		for i := 0; i < n; i++ {
			o[fmt.Sprintf("l%d", i)] = &hcldec.BlockLabelSpec{Index: i, Name: fmt.Sprintf("l%d", i)}
		}
		return o
	}
	names := []string{"k0", "k1", "k2", "k3", "k4"}
	for _, n := range []int{3, 4, 5} {
		deep := []e{
			{fmt.Sprintf("x-list-label%d", n), "blocklabel", hcldec.ObjectSpec{"x": &hcldec.BlockListSpec{TypeName: "x", Nested: labelsObj(n, dynA)}}},
			{fmt.Sprintf("x-map%d", n), "blockmap", hcldec.ObjectSpec{"x": &hcldec.BlockMapSpec{TypeName: "x", LabelNames: names[:n], Nested: hcldec.ObjectSpec{"a": strA}}}},
			{fmt.Sprintf("x-object%d", n), "blockobject", hcldec.ObjectSpec{"x": &hcldec.BlockObjectSpec{TypeName: "x", LabelNames: names[:n], Nested: inner}}},
			{fmt.Sprintf("x-map2-label%d", n-2), "blockmap", hcldec.ObjectSpec{"x": &hcldec.BlockMapSpec{TypeName: "x", LabelNames: names[:2], Nested: labelsObj(n-2, strA)}}},
		}
		for _, s := range deep {
			out = append(out, specEntry{name: s.name, kind: s.kind, node: describe(s.spec), deep: true})
		}
	}
	return out
}

// twiceList: specs that describe one attribute (or one block type) more than
// once within the same body. hcldec allows that (both sides of a DefaultSpec,
// two elements of a TupleSpec / ObjectSpec that read the same item with
// different types or decoders); the body is still processed with *one* schema,
// so what the descriptions jointly demand (the attribute is required as soon as
// one description requires it; every description sees the same item) must not
// depend on the syntax. All combinations of the Required flags in both visiting
// orders, equal and differing types, two and three descriptions, at the top
// level and inside a block body; block types described by two block spec kinds.
func twiceList() []struct {
	name, kind string
	spec       hcldec.Spec
} {
	type e = struct {
		name, kind string
		spec       hcldec.Spec
	}
	req := func(name string, ty cty.Type) *hcldec.AttrSpec {
		return &hcldec.AttrSpec{Name: name, Type: ty, Required: true}
	}
	reqA, reqB, reqStrA, reqNumA := req("a", cty.DynamicPseudoType), req("b", cty.DynamicPseudoType), req("a", cty.String), req("a", cty.Number)
	def := func(p, d hcldec.Spec) hcldec.Spec { return &hcldec.DefaultSpec{Primary: p, Default: d} }
	xl := func(nested hcldec.Spec) hcldec.Spec { return &hcldec.BlockListSpec{TypeName: "x", Nested: nested} }
	lit := &hcldec.LiteralSpec{Value: cty.StringVal("dflt")}
	return []e{
		// TupleSpec: the descriptions are visited in element order
		{"a-tuple-opt-req", "attr-twice", hcldec.TupleSpec{dynA, reqA}},
		{"a-tuple-req-opt", "attr-twice", hcldec.TupleSpec{reqA, dynA}},
		{"a-tuple-opt-opt", "attr-twice", hcldec.TupleSpec{dynA, strA}},
		{"a-tuple-req-req", "attr-twice", hcldec.TupleSpec{reqA, reqStrA}},
		{"a-tuple-opt-req-opt", "attr-twice", hcldec.TupleSpec{dynA, reqA, strA}},
		{"a-tuple-str-reqnum", "attr-twice", hcldec.TupleSpec{strA, reqNumA}},
		{"ab-tuple-cross", "attr-twice", hcldec.TupleSpec{dynA, reqB, dynB, reqA}},
		// ObjectSpec: the descriptions are visited in map order (either order may occur)
		{"a-object-opt-req", "attr-twice", hcldec.ObjectSpec{"p": dynA, "q": reqA}},
		{"a-object-str-reqnum", "attr-twice", hcldec.ObjectSpec{"s": strA, "n": reqNumA}},
		// DefaultSpec: Primary is visited before Default
		{"a-default-opt-req", "default-twice", hcldec.ObjectSpec{"a": def(dynA, reqA)}},
		{"a-default-req-opt", "default-twice", hcldec.ObjectSpec{"a": def(reqA, dynA)}},
		{"a-default-opt-opt", "default-twice", hcldec.ObjectSpec{"a": def(strA, dynA)}},
		{"a-default-req-req", "default-twice", hcldec.ObjectSpec{"a": def(reqA, reqStrA)}},
		{"a-default-chain", "default-twice", hcldec.ObjectSpec{"a": def(dynA, def(reqA, lit))}},
		{"a-default-bare", "default-twice", def(dynA, reqA)},
		// across composite kinds, beside another attribute and a block type
		{"a-tuple-object-default", "attr-twice", hcldec.TupleSpec{hcldec.ObjectSpec{"a": dynA, "x": xl(inner)}, def(dynB, reqA)}},
		// inside a block body (the nested body is processed with the nested spec's schema)
		{"x-list-a-opt-req", "nested-attr-twice", hcldec.ObjectSpec{"x": xl(hcldec.TupleSpec{dynA, reqA})}},
		{"x-list-a-req-opt", "nested-attr-twice", hcldec.ObjectSpec{"x": xl(hcldec.TupleSpec{reqA, dynA})}},
		{"x-object1-a-default-opt-req", "nested-attr-twice", hcldec.ObjectSpec{"x": &hcldec.BlockObjectSpec{TypeName: "x", LabelNames: []string{"k"}, Nested: hcldec.ObjectSpec{"a": def(dynA, reqA)}}}},
		// one block type described twice (same label count; the nested specs may differ)
		{"x-list-set", "block-twice", hcldec.TupleSpec{xl(inner), &hcldec.BlockSetSpec{TypeName: "x", Nested: inner}}},
		{"x-block-list", "block-twice", hcldec.ObjectSpec{"first": &hcldec.BlockSpec{TypeName: "x", Nested: inner}, "all": xl(inner)}},
		{"x-reqblock-tuple", "block-twice", hcldec.TupleSpec{&hcldec.BlockSpec{TypeName: "x", Nested: inner, Required: true}, &hcldec.BlockTupleSpec{TypeName: "x", Nested: inner}}},
		{"x-default-block-reqblock", "block-twice", hcldec.ObjectSpec{"x": def(&hcldec.BlockSpec{TypeName: "x", Nested: inner}, &hcldec.BlockSpec{TypeName: "x", Nested: inner, Required: true})}},
		{"x-list-list-a-opt-req", "block-twice", hcldec.TupleSpec{xl(hcldec.ObjectSpec{"a": dynA}), xl(hcldec.ObjectSpec{"a": reqA})}},
		{"x-list-list-a-req-opt", "block-twice", hcldec.TupleSpec{xl(hcldec.ObjectSpec{"a": reqA}), xl(hcldec.ObjectSpec{"a": dynA})}},
		{"x-map1-object1", "block-twice", hcldec.TupleSpec{&hcldec.BlockMapSpec{TypeName: "x", LabelNames: []string{"k"}, Nested: hcldec.ObjectSpec{"a": strA}}, &hcldec.BlockObjectSpec{TypeName: "x", LabelNames: []string{"k"}, Nested: inner}}},
		{"x-list-label1-object1", "block-twice", hcldec.TupleSpec{xl(hcldec.ObjectSpec{"a": dynA, "k": lab0}), &hcldec.BlockObjectSpec{TypeName: "x", LabelNames: []string{"k"}, Nested: hcldec.ObjectSpec{"a": reqA}}}},
		{"x-attrs-attrs", "block-twice", hcldec.TupleSpec{&hcldec.BlockAttrsSpec{TypeName: "x", ElementType: cty.String}, &hcldec.BlockAttrsSpec{TypeName: "x", ElementType: cty.Number, Required: true}}},
	}
}

// twiceFamilies: the configuration families the twice specs meet in the quick
// tier (top-level attributes defined / not defined, literals of every type,
// blocks x with 0 and 1 labels, nesting, kind clashes).
var twiceFamilies = map[string]bool{"empty": true, "lit": true, "defs": true, "clash": true, "nest": true, "blk00": true, "blk00a": true, "blk10": true, "blk10a": true}

// deepAlso: the ordinary specs the deep family meets too (label-count mismatches).
var deepAlso = map[string]bool{"x-list": true, "x-map2": true, "x-list-label2": true}

var specs = specList()
var specByName = func() map[string]specEntry {
	m := map[string]specEntry{}
	for _, s := range specs {
		m[s.name] = s
	}
	return m
}()

// describe derives the reference schema of a spec by its own walk over the
// spec tree (independent of hcldec.ImpliedSchema, which is cross-checked).
func describe(spec hcldec.Spec) *specNode {
	n := &specNode{spec: spec, hclSchema: hcldec.ImpliedSchema(spec), children: map[string]*child{}}
	var walk func(s hcldec.Spec)
	countLabels := func(nested hcldec.Spec) int {
		max := -1
		var w func(s hcldec.Spec)
		w = func(s hcldec.Spec) {
			switch t := s.(type) {
			case *hcldec.BlockLabelSpec:
				if t.Index > max {
					max = t.Index
				}
			case hcldec.ObjectSpec:
				for _, c := range t {
					w(c)
				}
			case hcldec.TupleSpec:
				for _, c := range t {
					w(c)
				}
			case *hcldec.DefaultSpec:
				w(t.Primary)
				w(t.Default)
			}
		}
		w(nested)
		return max + 1
	}
	// A block type may be described more than once: the schema names it once
	// and each description decodes the blocks with its own nested spec. The
	// reference reads the nested body with the union of the nested specs'
	// schemata (an error under the union is an error under one of them). Only
	// descriptions with the same number of labels and the same processing mode
	// are supported (which header schema wins otherwise is not specified).
	nestedOf := map[string][]hcldec.Spec{}
	labelsOf := map[string]int{}
	block := func(typ string, own int, nested hcldec.Spec) {
		labels := own + countLabels(nested)
		if prev, ok := nestedOf[typ]; ok {
			if labelsOf[typ] != labels {
				panic(fmt.Sprintf("describe: block type %q described with %d and %d labels", typ, labelsOf[typ], labels))
			}
			nestedOf[typ] = append(prev, nested)
			return
		}
		if _, ok := n.children[typ]; ok {
			panic(fmt.Sprintf("describe: block type %q described in two processing modes", typ))
		}
		n.schema.Blocks = append(n.schema.Blocks, refbody.BlockS{Type: typ, Labels: labels})
		nestedOf[typ], labelsOf[typ] = []hcldec.Spec{nested}, labels
	}
	walk = func(s hcldec.Spec) {
		switch t := s.(type) {
		case hcldec.ObjectSpec:
			keys := make([]string, 0, len(t))
			for k := range t {
				keys = append(keys, k)
			}
			sort.Strings(keys)
			for _, k := range keys {
				walk(t[k])
			}
		case hcldec.TupleSpec:
			for _, c := range t {
				walk(c)
			}
		case *hcldec.AttrSpec:
			// An attribute may be described more than once; it is one schema
			// element, required as soon as one description requires it.
			for i := range n.schema.Attrs {
				if n.schema.Attrs[i].Name == t.Name {
					n.schema.Attrs[i].Required = n.schema.Attrs[i].Required || t.Required
					return
				}
			}
			n.schema.Attrs = append(n.schema.Attrs, refbody.AttrS{Name: t.Name, Required: t.Required})
		case *hcldec.LiteralSpec, *hcldec.BlockLabelSpec:
		case *hcldec.DefaultSpec:
			walk(t.Primary)
			walk(t.Default)
		case *hcldec.BlockSpec:
			block(t.TypeName, 0, t.Nested)
		case *hcldec.BlockListSpec:
			block(t.TypeName, 0, t.Nested)
		case *hcldec.BlockSetSpec:
			block(t.TypeName, 0, t.Nested)
		case *hcldec.BlockTupleSpec:
			block(t.TypeName, 0, t.Nested)
		case *hcldec.BlockMapSpec:
			block(t.TypeName, len(t.LabelNames), t.Nested)
		case *hcldec.BlockObjectSpec:
			block(t.TypeName, len(t.LabelNames), t.Nested)
		case *hcldec.BlockAttrsSpec:
			if _, ok := nestedOf[t.TypeName]; ok {
				panic(fmt.Sprintf("describe: block type %q described in two processing modes", t.TypeName))
			}
			if _, ok := n.children[t.TypeName]; ok {
				return // described twice in dynamic-attributes mode
			}
			n.schema.Blocks = append(n.schema.Blocks, refbody.BlockS{Type: t.TypeName})
			n.children[t.TypeName] = &child{justAttrs: true}
		default:
			panic(fmt.Sprintf("describe: unsupported spec %T", s))
		}
	}
	walk(spec)
	for typ, ns := range nestedOf {
		if len(ns) == 1 {
			n.children[typ] = &child{node: describe(ns[0])}
		} else {
			n.children[typ] = &child{node: describe(hcldec.TupleSpec(ns))}
		}
	}
	// cross-check against the schema the real side is given: the same names, an
	// attribute required iff some entry of that name is required. (How often
	// ImpliedSchema lists a name is not the harness's business: whatever it
	// lists is what both bodies are given, and they must agree on it.)
	got := map[string]int{}
	for _, a := range n.hclSchema.Attributes {
		if got["A:"+a.Name] == 0 {
			got["A:"+a.Name] = 1
		}
		if a.Required {
			got["A:"+a.Name] = 2
		}
	}
	for _, b := range n.hclSchema.Blocks {
		got[fmt.Sprintf("B:%s:%d", b.Type, len(b.LabelNames))] = 1
	}
	want := map[string]int{}
	for _, a := range n.schema.Attrs {
		want["A:"+a.Name] = 1
		if a.Required {
			want["A:"+a.Name] = 2
		}
	}
	for _, b := range n.schema.Blocks {
		want[fmt.Sprintf("B:%s:%d", b.Type, b.Labels)] = 1
	}
	if fmt.Sprint(got) != fmt.Sprint(want) {
		panic(fmt.Sprintf("harness: describe(%T) = %v but ImpliedSchema = %v", spec, want, got))
	}
	return n
}

// ---------------------------------------------------------------- reference reading

type reading struct {
	err    bool
	unspec bool
	attrs  []refbody.Attr
	blocks []rblock
}

type rblock struct {
	typ    string
	labels []string
	sub    *reading
}

func deepRead(m refbody.Model, n *specNode) *reading {
	r := m.Content(n.schema)
	// (UnspecNames only qualify content that comes with an error; content is
	// never compared when there is an error, so they do not matter here.)
	out := &reading{err: r.Errs > 0, unspec: r.Unspec, attrs: r.Attrs}
	for _, b := range r.Blocks {
		ch := n.children[b.Type]
		var sub *reading
		if ch.justAttrs {
			jr := b.Body.JustAttributes()
			sub = &reading{err: jr.Errs > 0, unspec: jr.Unspec, attrs: jr.Attrs}
		} else {
			sub = deepRead(b.Body, ch.node)
		}
		out.blocks = append(out.blocks, rblock{b.Type, b.Labels, sub})
	}
	return out
}

func (r *reading) anyErr() bool {
	if r.err {
		return true
	}
	for _, b := range r.blocks {
		if b.sub.anyErr() {
			return true
		}
	}
	return false
}

func (r *reading) anyUnspec() bool {
	if r.unspec {
		return true
	}
	for _, b := range r.blocks {
		if b.sub.anyUnspec() {
			return true
		}
	}
	return false
}

// digest renders a reading; with order=false blocks are grouped per type
// (stable), which is all an encoding with Order=false can express.
func (r *reading) digest(order bool) string {
	var sb strings.Builder
	sb.WriteString("{")
	for _, a := range r.attrs {
		sb.WriteString(a.Name + "=" + a.Key + ";")
	}
	bl := r.blocks
	if !order {
		bl = append([]rblock(nil), bl...)
		sort.SliceStable(bl, func(i, j int) bool { return bl[i].typ < bl[j].typ })
	}
	for _, b := range bl {
		sb.WriteString(b.typ + fmt.Sprintf("%q", b.labels) + b.sub.digest(order))
	}
	sb.WriteString("}")
	return sb.String()
}

// ---------------------------------------------------------------- real observation

type cobs struct {
	err    bool
	diag   string
	attrs  []aobs
	blocks []bobs
}

type aobs struct {
	name string
	val  cty.Value
	err  bool
}

type bobs struct {
	typ    string
	labels []string
	sub    *cobs
}

type obs struct {
	val     cty.Value
	err     bool
	diag    string
	content *cobs
}

var evalCtx = &hcl.EvalContext{}

func attrsObs(attrs hcl.Attributes) []aobs {
	var out []aobs
	for name, a := range attrs {
		v, d := a.Expr.Value(evalCtx)
		out = append(out, aobs{name, v, d.HasErrors()})
	}
	sort.Slice(out, func(i, j int) bool { return out[i].name < out[j].name })
	return out
}

func observeContent(body hcl.Body, n *specNode) *cobs {
	content, diags := body.Content(n.hclSchema)
	o := &cobs{err: diags.HasErrors(), diag: diags.Error()}
	if content == nil {
		return o
	}
	o.attrs = attrsObs(content.Attributes)
	for _, b := range content.Blocks {
		ch := n.children[b.Type]
		var sub *cobs
		switch {
		case ch == nil:
			sub = &cobs{diag: "block type not in schema"}
		case ch.justAttrs:
			attrs, d := b.Body.JustAttributes()
			sub = &cobs{err: d.HasErrors(), diag: d.Error(), attrs: attrsObs(attrs)}
		default:
			sub = observeContent(b.Body, ch.node)
		}
		o.blocks = append(o.blocks, bobs{b.Type, b.Labels, sub})
	}
	return o
}

func observe(body hcl.Body, n *specNode) *obs {
	v, diags := hcldec.Decode(body, n.spec, evalCtx)
	return &obs{val: v, err: diags.HasErrors(), diag: diags.Error(), content: observeContent(body, n)}
}

func (c *cobs) anyErr() bool {
	if c.err {
		return true
	}
	for _, b := range c.blocks {
		if b.sub.anyErr() {
			return true
		}
	}
	return false
}

func (c *cobs) digest(order bool) string {
	var sb strings.Builder
	sb.WriteString("{")
	for _, a := range c.attrs {
		if a.err {
			sb.WriteString(a.name + "=ERR;")
		} else {
			sb.WriteString(a.name + "=" + vfmt.V(a.val) + ";")
		}
	}
	bl := c.blocks
	if !order {
		bl = append([]bobs(nil), bl...)
		sort.SliceStable(bl, func(i, j int) bool { return bl[i].typ < bl[j].typ })
	}
	for _, b := range bl {
		sb.WriteString(b.typ + fmt.Sprintf("%q", b.labels) + b.sub.digest(order))
	}
	sb.WriteString("}")
	return sb.String()
}

// compareContent returns the clause that differs ("" if none) and a detail.
func compareContent(n, j *cobs, order bool, path string) (string, string) {
	if len(n.attrs) != len(j.attrs) {
		return "attr-names", fmt.Sprintf("%s: native attributes %s, JSON attributes %s", path, attrNames(n.attrs), attrNames(j.attrs))
	}
	for i := range n.attrs {
		a, b := n.attrs[i], j.attrs[i]
		if a.name != b.name {
			return "attr-names", fmt.Sprintf("%s: native attributes %s, JSON attributes %s", path, attrNames(n.attrs), attrNames(j.attrs))
		}
		if a.err != b.err {
			return "attr-eval-error", fmt.Sprintf("%s: attribute %q evaluation error native=%v JSON=%v", path, a.name, a.err, b.err)
		}
		if !a.err && !a.val.RawEquals(b.val) {
			// qualified by the literal's type: the difference is in the expression mapping, whatever the spec
			return "attr-value." + strings.Fields(strings.ReplaceAll(a.val.Type().FriendlyName(), "dynamic", "null"))[0], fmt.Sprintf("%s: attribute %q native=%s JSON=%s", path, a.name, vfmt.V(a.val), vfmt.V(b.val))
		}
	}
	nb, jb := n.blocks, j.blocks
	if !order {
		nb, jb = append([]bobs(nil), nb...), append([]bobs(nil), jb...)
		sort.SliceStable(nb, func(a, b int) bool { return nb[a].typ < nb[b].typ })
		sort.SliceStable(jb, func(a, b int) bool { return jb[a].typ < jb[b].typ })
	}
	hdr := func(bs []bobs) string {
		var p []string
		for _, b := range bs {
			p = append(p, b.typ+fmt.Sprintf("%q", b.labels))
		}
		return "[" + strings.Join(p, " ") + "]"
	}
	if hdr(nb) != hdr(jb) {
		// same multiset in another order?
		a, b := strings.Fields(strings.Trim(hdr(nb), "[]")), strings.Fields(strings.Trim(hdr(jb), "[]"))
		sort.Strings(a)
		sort.Strings(b)
		clause := "blocks"
		if strings.Join(a, " ") == strings.Join(b, " ") {
			clause = "block-order"
		}
		return clause, fmt.Sprintf("%s: native block sequence %s, JSON block sequence %s", path, hdr(nb), hdr(jb))
	}
	for i := range nb {
		if nb[i].sub.err != jb[i].sub.err {
			return "nested-error", fmt.Sprintf("%s/%s%q: nested content error native=%v (%s) JSON=%v (%s)", path, nb[i].typ, nb[i].labels, nb[i].sub.err, nb[i].sub.diag, jb[i].sub.err, jb[i].sub.diag)
		}
		if nb[i].sub.err {
			continue
		}
		if cl, d := compareContent(nb[i].sub, jb[i].sub, order, fmt.Sprintf("%s/%s%q", path, nb[i].typ, nb[i].labels)); cl != "" {
			if cl == "block-order" && order {
				// the block contents differ pairwise because the order differs
				return cl, d
			}
			return cl, d
		}
	}
	return "", ""
}

func attrNames(as []aobs) string {
	var p []string
	for _, a := range as {
		p = append(p, a.name)
	}
	return "[" + strings.Join(p, " ") + "]"
}

// ---------------------------------------------------------------- judge

func encOptions(d Data) absconf.Options {
	return absconf.Options{Decor: true, DecorProduct: d.DecorProd, DegenerateTypes: d.Degenerate, MaxCutProps: d.MaxCut, Uniform: d.Uniform}
}

type verdict struct {
	fail   *engine.Outcome
	status string // compared | both-error | by-design | unspecified
}

func judgeEncoding(d Data, se specEntry, nObs *obs, refN *reading, enc *absconf.Encoding) verdict {
	text := enc.Doc.Render()
	feat := enc.Feat.Tag()
	where := func() string {
		return fmt.Sprintf("spec %s\nnative:\n%sJSON (%s; decor %d policy %q choices %v):\n%s\n", se.name, d.Native, strings.Join(enc.Feat.Names(), ","), enc.Decor, enc.Policy, enc.Choices, text)
	}
	f, diags := hcljson.Parse([]byte(text), "t.json")
	if diags.HasErrors() || f == nil || f.Body == nil {
		o := engine.Fail("c03.json-encoding-rejected."+feat, "%sjson.Parse rejects an encoding that json/spec.md allows: %s", where(), diags.Error())
		return verdict{fail: &o}
	}
	jObs := observe(f.Body, se.node) // always run: totality
	refJ := deepRead(refbody.NewJSON(enc.Doc), se.node)
	if refN.anyUnspec() || refJ.anyUnspec() {
		return verdict{status: "unspecified"}
	}
	eN, eJ := refN.anyErr(), refJ.anyErr()
	switch {
	case eN != eJ:
		// json/spec.md: "the schema is crucial to allow differentiation of
		// attribute definitions and block definitions" -- under this schema the
		// JSON document denotes something else than the native text.
		return verdict{status: "by-design"}
	case eN && eJ:
		if !nObs.err {
			o := engine.Fail("c03.schema-violation.native-accepts."+se.kind, "%sboth readings violate the schema per spec.md / json/spec.md, but hcldec.Decode of the native body reports no error (value %s)", where(), vfmt.V(nObs.val))
			return verdict{fail: &o}
		}
		if !jObs.err {
			o := engine.Fail("c03.schema-violation.json-accepts."+ctagOf(feat, se.kind), "%sboth readings violate the schema per spec.md / json/spec.md (native: %s), but hcldec.Decode of the JSON body reports no error (value %s)", where(), nObs.diag, vfmt.V(jObs.val))
			return verdict{fail: &o}
		}
		return verdict{status: "both-error"}
	}
	if refN.digest(enc.Order) != refJ.digest(enc.Order) {
		return verdict{status: "by-design"}
	}
	// Comparable: the two documents denote the same content under this schema.
	// The body level first (a difference there is a difference of the syntax
	// layer, whatever the spec kind), then the decoder level. A failure that
	// involves no JSON freedom at all ("plain") is qualified by the spec kind
	// instead.
	ctag := feat
	if feat == "plain" {
		ctag = "plain." + se.kind
	}
	nc, jc := nObs.content, jObs.content
	if nc.err != jc.err {
		cl, diag := "error-only-json", jc.diag
		if nc.err {
			cl, diag = "error-only-native", nc.diag
		}
		o := engine.Fail("c03.content."+cl+"."+ctag, "%sBody.Content(ImpliedSchema): native error=%v, JSON error=%v: %s", where(), nc.err, jc.err, diag)
		return verdict{fail: &o}
	}
	if !nc.err {
		if cl, detail := compareContent(nc, jc, enc.Order, ""); cl != "" {
			tag := ctag
			if strings.HasPrefix(cl, "attr-value") {
				tag = feat
			}
			o := engine.Fail("c03.content."+cl+"."+tag, "%sBody.Content(ImpliedSchema) differs: %s", where(), detail)
			return verdict{fail: &o}
		}
	}
	if nObs.err != jObs.err {
		cl, diag := "error-only-json", jObs.diag
		if nObs.err {
			cl, diag = "error-only-native", nObs.diag
		}
		o := engine.Fail("c03.decode."+cl+"."+se.kind+"."+feat, "%shcldec.Decode: native error=%v, JSON error=%v: %s", where(), nObs.err, jObs.err, diag)
		return verdict{fail: &o}
	}
	if !nObs.err && !nObs.val.RawEquals(jObs.val) {
		o := engine.Fail("c03.decode.value."+se.kind+"."+feat, "%shcldec.Decode: native value %s, JSON value %s", where(), vfmt.V(nObs.val), vfmt.V(jObs.val))
		return verdict{fail: &o}
	}
	return verdict{status: "compared"}
}

func judge(c engine.Case) engine.Outcome {
	d := c.Data.(Data)
	se, ok := specByName[d.Spec]
	if !ok {
		return engine.Skip()
	}
	d.Native = absconf.Native(d.Conf)
	nf, diags := hclsyntax.ParseConfig([]byte(d.Native), "t.hcl", hcl.InitialPos)
	if diags.HasErrors() {
		return engine.Fail("c03.harness.native-rendering-rejected", "native rendering does not parse:\n%s\n%s", d.Native, diags.Error())
	}
	nObs := observe(nf.Body, se.node)
	refN := deepRead(refbody.NewNative(d.Conf), se.node)
	counts := map[string]int{}
	var failure *engine.Outcome
	total := 0
	visit := func(enc *absconf.Encoding) bool {
		total++
		v := judgeEncoding(d, se, nObs, refN, enc)
		if v.fail != nil {
			failure = v.fail
			return false
		}
		counts[v.status]++
		return true
	}
	switch {
	case d.Pinned:
		visit(pinned(d))
	case refN.anyErr():
		// The native reading violates the schema: every comparable encoding can
		// only be checked for "also an error", so only the fixed structures
		// (plain, compact, arrays) x all decorations are tried.
		opt := encOptions(d)
	outer:
		for decor := 0; decor < opt.NumDecor(); decor++ {
			for _, p := range absconf.Policies {
				if !visit(absconf.EncodePolicy(d.Conf, opt, decor, p)) {
					break outer
				}
			}
		}
	default:
		absconf.Encodings(d.Conf, encOptions(d), visit)
	}
	if failure != nil {
		return *failure
	}
	counters.Add("encodings", int64(total))
	for k, v := range counts {
		counters.Add("encodings_"+k, int64(v))
	}
	if counts["compared"]+counts["both-error"] == 0 {
		if counts["unspecified"] > 0 && counts["by-design"] == 0 {
			return engine.Skip()
		}
		return engine.Pass("")
	}
	res := "E"
	if !nObs.err {
		res = vfmt.V(nObs.val)
	}
	return engine.Pass(fmt.Sprintf("%s|%s|%s|cmp=%d,err=%d,design=%d,unspec=%d", se.name, res, nObs.content.digest(true), counts["compared"], counts["both-error"], counts["by-design"], counts["unspecified"]))
}

func ctagOf(feat, kind string) string {
	if feat == "plain" {
		return "plain." + kind
	}
	return feat
}

func pinned(d Data) *absconf.Encoding {
	if d.Policy != "" {
		return absconf.EncodePolicy(d.Conf, encOptions(d), d.Decor, d.Policy)
	}
	return absconf.EncodeChoices(d.Conf, encOptions(d), d.Decor, d.Choices)
}

// ---------------------------------------------------------------- generator

func lbl(ls ...string) []string { return ls }

var numA = absconf.Num

// literal pools
func literals(tier string) []absconf.Val {
	S, N, L, O, F := absconf.Str, absconf.Num, absconf.List, absconf.Obj, absconf.F
	pool := []absconf.Val{
		N("1"), N("0"), N("-1"), N("2.5"), N("1e3"), N("0.1"), N("12345678901234567890123"),
		S("s"), S(""), S("a$b %c ~"), S("q\"\\\n\t"), S("é😀"),
		absconf.Bool(true), absconf.Bool(false), absconf.Null(),
		L(), L(N("1"), S("s")), L(L(absconf.Bool(true)), absconf.Null()),
		O(), O(F("p", N("1"))), O(F("p", O(F("q", L(N("1")))))), O(F("//", N("1"))), O(F("k m", S("v")), F("p", absconf.Null())),
		// numbers that need more than 53 bits / 17 significant digits (both syntaxes parse at 512-bit precision)
		N("9007199254740993"), N("8.000000000000003"), N("123456789012345678"), N("18446744073709551615"),
		N("0.1000000000000000055511151231257827"), N("1e-7"), N("-0.0"),
		L(N("9007199254740993"), N("0.1000000000000000055511151231257827")),
		O(F("p", N("18446744073709551615")), F("q", L(N("8.000000000000003")))),
		L(O(F("n", N("123456789012345678"))), N("-0.0")),
	}
	if tier == "thorough" {
		pool = append(pool,
			N("1e-2"), N("123.456e2"), N("0.30000000000000004"), N("1E+2"), N("99999999999999999999999999999999999999999999"),
			S("$"), S("%"), S("$ {x}"), S("line1\nline2"), S("  "), S("//"), S("null"), S("true"), S("1"),
			L(O(F("a", N("1"))), O(F("a", N("2")))), L(S("a"), S("b"), S("c")),
			O(F("a", N("1")), F("b", L()), F("c", O())), O(F("x", O(F("a", N("1"))))),
		)
	}
	return pool
}

type arity struct{ x, y int }

func labelSets(n int, tier string) [][]string {
	switch n {
	case 0:
		return [][]string{nil}
	case 1:
		if tier == "thorough" {
			return [][]string{lbl("k"), lbl("m"), lbl("//")}
		}
		return [][]string{lbl("k"), lbl("m")}
	default:
		if tier == "thorough" {
			return [][]string{lbl("k", "k"), lbl("k", "m"), lbl("m", "k"), lbl("//", "k")}
		}
		return [][]string{lbl("k", "k"), lbl("k", "m"), lbl("m", "k")}
	}
}

// structures enumerates block sequences of up to maxBlocks blocks over the
// types x (ax labels) and y (ay labels); the body of block i is `a = i+1`.
func structures(ar arity, maxBlocks int, tier string, yield func(absconf.Body) bool) bool {
	type alt struct {
		typ    string
		labels []string
	}
	var alpha []alt
	for _, l := range labelSets(ar.x, tier) {
		alpha = append(alpha, alt{"x", l})
	}
	for _, l := range labelSets(ar.y, tier) {
		alpha = append(alpha, alt{"y", l})
	}
	for n := 1; n <= maxBlocks; n++ {
		idx := make([]int, n)
		for {
			var b absconf.Body
			for i, k := range idx {
				b = append(b, absconf.B(alpha[k].typ, alpha[k].labels, absconf.A("a", numA(fmt.Sprint(i+1)))))
			}
			if !yield(b) {
				return false
			}
			i := n - 1
			for i >= 0 {
				idx[i]++
				if idx[i] < len(alpha) {
					break
				}
				idx[i] = 0
				i--
			}
			if i < 0 {
				break
			}
		}
	}
	return true
}

func usesType(b absconf.Body, typ string) bool {
	for _, it := range b {
		if it.Block == typ {
			return true
		}
	}
	return false
}

func gen(tier string, emit func(engine.Case) bool) {
	thorough := tier == "thorough"
	maxCut := 3
	if thorough {
		maxCut = 4
	}
	n := 0
	emitConf := func(fam string, conf absconf.Body) bool {
		n++
		for _, se := range specs {
			if fam == "deep" {
				if !se.deep && !deepAlso[se.name] {
					continue
				}
			} else if se.deep {
				continue
			}
			if se.twice && !thorough && !twiceFamilies[fam] {
				continue
			}
			d := Data{Conf: conf, Spec: se.name, Degenerate: []string{"x", "y"}, MaxCut: maxCut, DecorProd: thorough && conf.Size() <= 4, Uniform: fam == "deep", Native: absconf.Native(conf)}
			if !emit(engine.Case{ID: fmt.Sprintf("%s/%04d/%s", fam, n, se.name), Data: d}) {
				return false
			}
		}
		return true
	}
	A, B := absconf.A, absconf.B
	one := numA("1")
	// F0: the empty configuration
	if !emitConf("empty", absconf.Body{}) {
		return
	}
	// F1: literals, as a top-level attribute, next to a second attribute, and inside a block body
	for _, v := range literals(tier) {
		if !emitConf("lit", absconf.Body{A("a", v)}) {
			return
		}
		if !emitConf("lit", absconf.Body{A("b", absconf.Str("s2")), A("a", v)}) {
			return
		}
		if !emitConf("lit", absconf.Body{B("x", nil, A("a", v))}) {
			return
		}
		if !emitConf("lit", absconf.Body{B("x", lbl("k"), A("a", v))}) {
			return
		}
	}
	// F1b ("defs"): which of the attributes a, b a body defines, at the top level and in a block body
	for _, ab := range []absconf.Body{
		{A("b", one)},
		{A("a", one), A("b", numA("2"))},
		{A("b", one), A("a", absconf.Null())},
	} {
		for _, conf := range []absconf.Body{
			ab,
			append(append(absconf.Body{}, ab...), B("x", nil)),
			{B("x", nil, ab...)},
			{B("x", lbl("k"), ab...)},
			{B("x", nil, ab...), B("x", nil)},
			{B("x", lbl("k")), B("x", lbl("m"), ab...)},
		} {
			if !emitConf("defs", conf) {
				return
			}
		}
	}
	// F2: block structures, all label arities, with and without an interleaved attribute
	maxBlocks := 3
	for _, ar := range []arity{{0, 0}, {1, 0}, {0, 1}, {1, 1}, {2, 0}, {2, 1}} {
		mb := maxBlocks
		if !thorough && (ar.x == 2 || ar.x+ar.y == 2) {
			mb = 2 // quick: three-block sequences only for the small label arities
		}
		if thorough && ar.x+ar.y <= 1 {
			mb = 4 // thorough: four-block sequences for the small label arities
		}
		ok := structures(ar, mb, tier, func(b absconf.Body) bool {
			if !emitConf(fmt.Sprintf("blk%d%d", ar.x, ar.y), b) {
				return false
			}
			if len(b) <= 2 || (thorough && len(b) <= 3) {
				// an attribute at every position
				for pos := 0; pos <= len(b); pos++ {
					if !thorough && pos != 0 && pos != len(b)-1 {
						continue
					}
					w := append(append(append(absconf.Body{}, b[:pos]...), A("a", absconf.Str("top"))), b[pos:]...)
					if !emitConf(fmt.Sprintf("blk%d%da", ar.x, ar.y), w) {
						return false
					}
				}
			}
			return true
		})
		if !ok {
			return
		}
	}
	// F3: nesting: x blocks whose bodies hold attributes and y blocks
	two, three := numA("2"), numA("3")
	for _, yl := range [][]string{nil, lbl("k")} {
		ym := yl
		if yl != nil {
			ym = lbl("m")
		}
		nestedBodies := []absconf.Body{
			{},
			{B("y", yl)},
			{B("y", yl, A("a", one))},
			{A("a", one), B("y", yl, A("a", two))},
			{B("y", yl, A("a", one)), B("y", ym, A("a", two))},
			{B("y", yl, A("a", one)), A("a", three), B("y", yl, A("a", two))},
			{B("y", yl, B("y", yl, A("a", one)))},
		}
		for _, xl := range [][]string{nil, lbl("k")} {
			for i, nb1 := range nestedBodies {
				if !emitConf("nest", absconf.Body{B("x", xl, nb1...)}) {
					return
				}
				for j, nb2 := range nestedBodies {
					if !thorough && i+j > 3 {
						continue // quick: the smaller pairs
					}
					if !emitConf("nest", absconf.Body{B("x", xl, nb1...), B("x", xl, nb2...)}) {
						return
					}
					if thorough && i+j <= 3 {
						if !emitConf("nest", absconf.Body{B("x", xl, nb1...), B("y", yl, A("a", three)), B("x", xl, nb2...)}) {
							return
						}
					}
				}
			}
		}
	}
	// F5 ("deep"): block types with 3, 4 and 5 labels. Labels over {k,m}; block i has the body `a = i+1`.
	// (a) two blocks: the all-k label tuple followed by every tuple (siblings that part at every level,
	//     at several levels, and identical labels); (b) three blocks: all-k, then two tuples that each differ
	//     from all-k at exactly one level or not at all (siblings at the deepest level under one parent next
	//     to siblings at intermediate levels); thorough: (b) with every pair of tuples for 4 labels.
	for _, nl := range []int{3, 4, 5} {
		var tuples [][]string
		for m := 0; m < 1<<nl; m++ {
			t := make([]string, nl)
			for i := range t {
				t[i] = "k"
				if m&(1<<(nl-1-i)) != 0 {
					t[i] = "m"
				}
			}
			tuples = append(tuples, t)
		}
		single := [][]string{tuples[0]}
		for i := 0; i < nl; i++ {
			single = append(single, tuples[1<<i])
		}
		blk := func(i int, t []string) absconf.Item { return B("x", t, A("a", numA(fmt.Sprint(i+1)))) }
		for _, t := range tuples {
			if !emitConf("deep", absconf.Body{blk(0, tuples[0]), blk(1, t)}) {
				return
			}
		}
		third := single
		if thorough && nl == 4 {
			third = tuples
		}
		for _, t1 := range third {
			for _, t2 := range third {
				if !emitConf("deep", absconf.Body{blk(0, tuples[0]), blk(1, t1), blk(2, t2)}) {
					return
				}
			}
		}
	}
	// F4: kind clashes: an attribute named like a block type and a block named like an attribute
	clashes := []absconf.Body{
		{A("x", one)},
		{A("x", absconf.Str("s"))},
		{A("x", absconf.Bool(true))},
		{A("x", absconf.Null())},
		{A("x", absconf.Obj(absconf.F("a", one)))},
		{A("x", absconf.Obj(absconf.F("k", absconf.Obj(absconf.F("a", one)))))},
		{A("x", absconf.List(absconf.Obj(absconf.F("a", one)), absconf.Obj(absconf.F("a", two))))},
		{A("x", absconf.List(one, two))},
		{A("x", absconf.List())},
		{A("x", absconf.Obj())},
		{B("a", nil)},
		{B("a", nil, A("a", one))},
		{B("a", lbl("k"), A("a", one))},
		{B("a", nil, A("p", one))},
		{A("a", one), B("x", nil, A("a", two)), A("y", absconf.Obj(absconf.F("a", three)))},
		{B("x", nil, A("a", one)), A("x", two)},
		{B("b", nil), A("a", one)},
		{A("c", one)},
		{B("z", nil)},
		{A("a", one), A("c", two)},
		{B("x", nil, A("a", one), A("c", two))},
		{B("x", nil, A("a", one), B("z", nil))},
		{B("x", lbl("k"), A("c", two))},
	}
	for _, cb := range clashes {
		if !emitConf("clash", cb) {
			return
		}
	}
}

// ---------------------------------------------------------------- shrink

func shrink(c engine.Case) (out []engine.Case) {
	defer func() { recover() }() // never let a panic of the code under test escape from shrinking
	d := c.Data.(Data)
	mk := func(conf absconf.Body, enc *absconf.Encoding, tag string) {
		nd := d
		nd.Conf, nd.Native, nd.JSON = conf, absconf.Native(conf), ""
		nd.Pinned, nd.Decor, nd.Policy, nd.Choices = false, 0, "", nil
		if enc != nil {
			nd.Pinned, nd.Decor, nd.Policy, nd.Choices = true, enc.Decor, enc.Policy, enc.Choices
			nd.JSON = enc.Doc.Render()
		}
		out = append(out, engine.Case{ID: c.ID + tag, Data: nd})
	}
	// smaller configurations first (every encoding is tried again)
	var removals func(b absconf.Body) []absconf.Body
	removals = func(b absconf.Body) []absconf.Body {
		var res []absconf.Body
		for i := range b {
			res = append(res, append(append(absconf.Body{}, b[:i]...), b[i+1:]...))
		}
		for i := range b {
			if b[i].IsAttr() {
				continue
			}
			for _, nb := range removals(b[i].Body) {
				cp := b.Clone()
				cp[i].Body = nb
				res = append(res, cp)
			}
		}
		return res
	}
	for _, conf := range removals(d.Conf) {
		mk(conf, nil, "-")
	}
	// then pin the first failing encoding
	if !d.Pinned {
		se, ok := specByName[d.Spec]
		if ok {
			native := absconf.Native(d.Conf)
			dd := d
			dd.Native = native
			if nf, diags := hclsyntax.ParseConfig([]byte(native), "t.hcl", hcl.InitialPos); !diags.HasErrors() {
				nObs := observe(nf.Body, se.node)
				refN := deepRead(refbody.NewNative(d.Conf), se.node)
				absconf.Encodings(d.Conf, encOptions(d), func(enc *absconf.Encoding) bool {
					failed := false
					func() {
						defer func() {
							if recover() != nil {
								failed = true // a panic in the code under test: pin this encoding too
							}
						}()
						failed = judgeEncoding(dd, se, nObs, refN, enc).fail != nil
					}()
					if failed {
						mk(d.Conf, enc, "~")
						return false
					}
					return true
				})
			}
		}
	}
	return out
}

func main() {
	if len(os.Args) > 1 && os.Args[1] == "dump" {
		dump()
		return
	}
	if len(os.Args) > 1 && os.Args[1] == "count" {
		tier := "quick"
		if len(os.Args) > 2 {
			tier = os.Args[2]
		}
		var confs, encs, max int64
		fam := map[string][2]int64{}
		seenConf := map[string]bool{}
		defer func() { fmt.Println(fam) }()
		gen(tier, func(c engine.Case) bool {
			d := c.Data.(Data)
			key := c.ID[:strings.LastIndex(c.ID, "/")]
			if seenConf[key] {
				return true
			}
			seenConf[key] = true
			confs++
			n := int64(0)
			absconf.Encodings(d.Conf, encOptions(d), func(*absconf.Encoding) bool { n++; return n < 300000 })
			encs += n
			k := strings.SplitN(c.ID, "/", 2)[0]
			fam[k] = [2]int64{fam[k][0] + 1, fam[k][1] + n}
			if n > max {
				max = n
				fmt.Printf("%s: %d encodings\n%s", c.ID, n, d.Native)
			}
			return true
		})
		fmt.Println("configurations", confs, "encodings", encs, "max", max)
		return
	}
	engine.Main(&engine.Check{
		ID:        "C03",
		Title:     "Native and JSON syntaxes denote the same configuration",
		Technique: "bounded exhaustive enumeration of abstract configurations x every admissible JSON encoding x hcldec spec table; differential native vs JSON on the real decoder, comparability decided by a reference reading of both syntaxes",
		Rule: "abstract configurations (gen/absconf): the empty body; every literal of a pool (33 quick / 51 thorough: numbers incl. fraction, exponent, 23-digit integer and numbers that need more than 53 bits / 17 significant digits (9007199254740993, 8.000000000000003, 123456789012345678, 18446744073709551615, 0.1000000000000000055511151231257827, 1e-7, -0.0), also nested in lists and objects; strings incl. escapes, non-ASCII, '$' and '%' without template sequences; bool; null; nested lists/objects incl. an object key \"//\") as top-level attribute, beside a second attribute and inside an unlabelled and a labelled block body; all sequences of <= 3 blocks over the types x,y for the label arities (x,y) in {00,10,01,11,20,21} with labels from {k,m}, each block with a distinguishing body (quick: arities 11,20,21 only <= 2 blocks; thorough: arities 00,10,01 up to 4 blocks and the label \"//\"), alone and with an attribute interleaved at the start and before the last block (quick, <= 2 blocks) / at every position (thorough, <= 3 blocks); one or two x blocks (unlabelled / labelled) over 7 nested bodies holding attributes and y blocks (nesting <= 2; quick: the smaller pairs); 23 kind-clash configurations (attribute named like a block type, block named like an attribute, items no spec mentions); the 'defs' family (18 configurations): the attribute sets {b}, {a,b}, {b, a=null} at the top level (alone / beside an x block) and in the body of an unlabelled / labelled x block (alone / beside an empty sibling); the 'deep' family: block type x with 3, 4 and 5 labels over {k,m}: the all-k tuple followed by every label tuple (2 blocks: siblings that part at every level, at several levels, identical labels) and all-k followed by every pair of tuples that differ from all-k at no or exactly one level (3 blocks: siblings at the deepest level under one parent next to siblings at intermediate levels; thorough: every pair of tuples for 4 labels). " +
			"x every admissible JSON encoding = the full choice tree of absconf.Encodings: per repeated block {new property with a duplicate name | joined to the latest property of its type, adjacent or across other blocks} x per label level {equal adjacent labels share a property | duplicate label names} x {object | array of objects with every order-preserving cut (above 3/4 properties only the one-property-per-element cut)} per label level and for the top-level body x {body object | one-element array} per single block; plus the decorations {\"//\" comment first | last in every body object | a degenerate \"x\"/\"y\": [] | \"x\"/\"y\": null property} on the three fixed structures plain, compact and arrays (thorough: on every structure for configurations of <= 4 items). Where the native reading already violates the schema only the fixed structures x all decorations are tried (nothing but 'also an error' can be checked there). In the deep family the object/array, cut and one-element-array choices are made once per document (all label levels alike) while the join and duplicate-label choices, which decide which blocks are siblings in one JSON object, stay independent per block and level. " +
			"x 42 hcldec specs for the ordinary families (AttrSpec dynamic/typed/required, TupleSpec, DefaultSpec incl. required parts, LiteralSpec, BlockSpec, BlockListSpec with Min/Max, BlockSetSpec, BlockTupleSpec, BlockAttrsSpec, BlockMapSpec and BlockObjectSpec with 1 and 2 labels, BlockLabelSpec under list/block/tuple/set/map, ObjectSpec/TupleSpec combinations, nested block specs); every configuration meets every spec, which yields the schema perturbations (missing required, extra attribute/block, wrong label count, attribute where a block is expected and vice versa); the deep family meets 12 specs of its own (for n = 3,4,5 labels: BlockListSpec with a BlockLabelSpec for every label index, BlockMapSpec and BlockObjectSpec with n label names, BlockMapSpec with 2 label names plus BlockLabelSpecs for the other n-2) and 3 ordinary ones as label-count mismatches; " +
			"29 specs that describe one attribute or one block type more than once in the same body (TupleSpec with the attribute a described as optional/required in every combination and both visiting orders, with equal and differing types, two and three descriptions, a and b crosswise; ObjectSpec likewise; DefaultSpec whose Primary and Default name the same attribute with every combination of Required, chained and bare; the same across composite kinds; the same inside the nested spec of a BlockListSpec / BlockObjectSpec; the block type x described by two block specs of the same label count: list+set, block+list, required block+tuple, DefaultSpec over two BlockSpecs, two lists whose nested specs differ in Required, map+object, list with a BlockLabelSpec+object, two BlockAttrsSpecs) meet the families empty, lit, defs, clash, nest and the block families with arities 00 and 10 (thorough: every ordinary family). " +
			"A case = (configuration, spec) and covers all its encodings; non-trivial = at least one encoding comparable or both-must-error; distinct = distinct (spec, decoded value, content, comparability counts) observations.",
		Assumptions: []string{
			"go-cty value equality (RawEquals) and number parsing are trusted",
			"hcldec.ImpliedSchema is cross-checked against the harness's own walk of the spec tree at start-up (same attribute names, an attribute required iff some listed entry of that name is; same block types and label counts); how often it lists a name is left to the differential oracle",
			"comparability (same denotation under the schema) is decided by ref/refbody, written from spec.md and json/spec.md; pairs it calls by-design different or unspecified are executed (panic-freedom) but not compared",
		},
		Gen:    gen,
		Judge:  judge,
		Load:   engine.LoadAs[Data],
		Shrink: shrink,
		Extra: func() map[string]any {
			m := map[string]any{"specs": len(specs)}
			for k, v := range counters.Snapshot() {
				m[k] = v
			}
			return m
		},
		QuickBudget:    4 * time.Minute,
		ThoroughBudget: 40 * time.Minute,
	})
}

// dump prints the encodings of a few configurations (development aid).
func dump() {
	conf := absconf.Body{
		absconf.A("a", numA("1")),
		absconf.B("x", lbl("k"), absconf.A("a", numA("1"))),
		absconf.B("y", nil),
		absconf.B("x", lbl("k"), absconf.A("a", numA("2"))),
	}
	fmt.Print(absconf.Native(conf))
	n := 0
	absconf.Encodings(conf, absconf.Options{Decor: true, DegenerateTypes: []string{"x", "y"}, MaxCutProps: 3}, func(e *absconf.Encoding) bool {
		n++
		if n < 20 || n%20 == 0 || e.Decor > 0 {
			fmt.Printf("%4d d=%d %s %v order=%v %v\n     %s\n", n, e.Decor, e.Policy, e.Choices, e.Order, e.Feat.Names(), e.Doc.Render())
		}
		return true
	})
	fmt.Println("total", n)
	fmt.Println("compact:", absconf.Compact(conf).Doc.Render())
	fmt.Println("arrays: ", absconf.ArrayHeavy(conf).Doc.Render())
}
