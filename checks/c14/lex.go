package main

import (
	"bytes"
	"fmt"
	"strings"

	"github.com/hashicorp/hcl/v2"
	"github.com/hashicorp/hcl/v2/hclsyntax"

	"verif/engine"
	"verif/ref/refpos"
)

const fname = "c14.hcl"

// the two start positions of the lexer part
var lexStarts = []hcl.Pos{hcl.InitialPos, {Line: 3, Column: 5, Byte: 17}}

type lexFn struct {
	name string
	fn   func([]byte, string, hcl.Pos) (hclsyntax.Tokens, hcl.Diagnostics)
}

var lexModes = map[string][]lexFn{
	"normal":   {{"LexConfig", hclsyntax.LexConfig}, {"LexExpression", hclsyntax.LexExpression}},
	"template": {{"LexTemplate", hclsyntax.LexTemplate}},
}

func onlySpaceTab(b []byte) bool {
	for _, c := range b {
		if c != ' ' && c != '\t' {
			return false
		}
	}
	return true
}

var bom = []byte{0xef, 0xbb, 0xbf}

// hasLoneCR reports whether src[s:e] contains a CR that is not followed by LF
// in src (the LF may be the first byte of the next token).
func hasLoneCR(src []byte, s, e int) bool {
	for i := s; i < e && i < len(src); i++ {
		if src[i] == '\r' && (i+1 >= len(src) || src[i+1] != '\n') {
			return true
		}
	}
	return false
}

// checkTokens applies the tiling and position oracle to one token stream.
// It returns nil when everything demanded holds.
func checkTokens(mode, fn string, src []byte, start hcl.Pos, toks hclsyntax.Tokens, ix *refpos.Index) *engine.Outcome {
	fail := func(clause, format string, a ...any) *engine.Outcome {
		o := engine.Fail("c14.lex."+mode+"."+clause, "%s(%q, start=%+v): %s", fn, src, start, fmt.Sprintf(format, a...))
		return &o
	}
	n := len(src)
	if len(toks) == 0 {
		return fail("eof-missing", "no tokens at all (an end-of-file token is demanded)")
	}
	// ---- tiling ----
	prevEnd := 0
	for i, t := range toks {
		s, e := t.Range.Start.Byte-start.Byte, t.Range.End.Byte-start.Byte
		if t.Range.Filename != fname {
			return fail("filename", "token %d (%s) has filename %q", i, t.Type, t.Range.Filename)
		}
		if s < 0 || e < s || e > n {
			return fail("range-out-of-bounds", "token %d (%s) has byte range [%d,%d) relative to the buffer of length %d", i, t.Type, s, e, n)
		}
		if s < prevEnd {
			return fail("order-overlap", "token %d (%s) starts at %d before the end %d of its predecessor", i, t.Type, s, prevEnd)
		}
		if !bytes.Equal(t.Bytes, src[s:e]) {
			return fail("bytes-mismatch", "token %d (%s) has Bytes %q but its range [%d,%d) slices the source to %q", i, t.Type, t.Bytes, s, e, src[s:e])
		}
		gap := src[prevEnd:s]
		if prevEnd == 0 && bytes.HasPrefix(gap, bom) {
			// hclsyntax/spec.md: a BOM is "not permitted"; the implementation
			// strips it. Either way it is not a token: tolerated as a gap.
			gap = gap[3:]
		}
		if !onlySpaceTab(gap) {
			return fail("gap-nonspace", "bytes %q between token %d and token %d (%s) are covered by no token", src[prevEnd:s], i-1, i, t.Type)
		}
		prevEnd = e
		isLast := i == len(toks)-1
		if (t.Type == hclsyntax.TokenEOF) != isLast {
			if isLast {
				return fail("eof-missing", "the last token is %s, not an end-of-file token", t.Type)
			}
			return fail("eof-duplicate", "token %d of %d is an end-of-file token", i, len(toks))
		}
		if isLast && (s != n || e != n) {
			return fail("eof-range", "the end-of-file token has range [%d,%d), want [%d,%d)", s, e, n, n)
		}
	}
	// ---- positions ----
	if ix.LeadingBOM {
		// BOM: not permitted by the spec, so its column width is undefined.
		return nil
	}
	// A lone CR (not followed by LF) is not a newline sequence of the native
	// syntax (hclsyntax/spec.md: "either U+000A or U+000D followed by U+000A")
	// and is a grapheme cluster of its own: it is one column and does not end
	// the line, whichever token it sits in (comment, invalid token, quoted
	// newline, string/heredoc literal) and whichever scanning mode is active.
	// The reference index computes exactly that (refpos Native*).
	colsOK := true
	for _, t := range toks {
		s, e := t.Range.Start.Byte-start.Byte, t.Range.End.Byte-start.Byte
		if !ix.NativeColDefined(s) || !ix.NativeColDefined(e) {
			colsOK = false
			break
		}
	}
	// The stream is walked in order, so the first disagreement names its
	// cause: a disagreement at a token start (the preceding token end agreed)
	// was introduced by the gap before the token, one at a token end by the
	// token's own content.
	prevEnd = 0
	for i, t := range toks {
		s := t.Range.Start.Byte - start.Byte
		for k, p := range []hcl.Pos{t.Range.Start, t.Range.End} {
			which := []string{"start", "end"}[k]
			cause := "within." + t.Type.String()
			if hasLoneCR(src, s, t.Range.End.Byte-start.Byte) {
				// construct + condition: a token of this type that contains a
				// carriage return which is not part of a CRLF newline sequence
				cause += ".lone-cr"
			}
			if k == 0 {
				cause = "gap-spaces"
				if bytes.IndexByte(src[prevEnd:s], '\t') >= 0 {
					cause = "gap-with-tab"
				} else if prevEnd == s {
					cause = "no-gap"
				}
			}
			off := p.Byte - start.Byte
			if ix.NativeLineDefined(off) && p.Line != ix.Line(off) {
				return fail("line."+cause, "token %d (%s %q) %s: line %d at byte %d, counting newlines gives %d", i, t.Type, t.Bytes, which, p.Line, p.Byte, ix.Line(off))
			}
			if colsOK && p.Column != ix.Col(off) {
				return fail("column."+cause, "token %d (%s %q) %s: column %d at byte %d, counting grapheme clusters gives %d", i, t.Type, t.Bytes, which, p.Column, p.Byte, ix.Col(off))
			}
		}
		prevEnd = t.Range.End.Byte - start.Byte
	}
	if !colsOK {
		nLexNoCols.Add(1)
	}
	return nil
}

// ixCache holds the reference position index of one buffer per start position.
type ixCache struct {
	src []byte
	ix  [2]*refpos.Index
}

func (c *ixCache) get(si int) *refpos.Index {
	if c.ix[si] == nil {
		c.ix[si] = refpos.New(c.src, lexStarts[si].Line, lexStarts[si].Column)
	}
	return c.ix[si]
}

func judgeLex(d Data) engine.Outcome {
	return judgeLexWith(d, &ixCache{src: d.Src})
}

func judgeLexWith(d Data, cache *ixCache) engine.Outcome {
	fns, ok := lexModes[d.Mode]
	if !ok {
		return engine.Skip()
	}
	var sig strings.Builder
	sig.WriteString(d.Mode)
	for si, start := range lexStarts {
		ix := cache.get(si)
		for _, f := range fns {
			if f.name == "LexExpression" && si != 0 {
				continue // LexExpression is LexConfig by another name; one start position suffices
			}
			toks, _ := f.fn(d.Src, fname, start)
			if o := checkTokens(d.Mode, f.name, d.Src, start, toks, ix); o != nil {
				return *o
			}
			if si != 0 || f.name == "LexExpression" {
				continue
			}
			for _, t := range toks {
				sig.WriteRune(rune(t.Type))
			}
			last := toks[len(toks)-1].Range.End
			fmt.Fprintf(&sig, "%d:%d", last.Line, last.Column)
			if d.Mode == "normal" && !ix.LeadingBOM {
				// (A leading byte order mark is "not permitted" by the spec and
				// stripped by the scanner; whether an identifier may carry one is
				// Unspecified, so such inputs are left alone.)
				// The identifier-only scanning mode is observable only through
				// ValidIdentifier ("could be a valid identifier in a native
				// syntax expression"): it must say yes exactly when the normal
				// mode reads the whole string as one identifier token.
				single := len(toks) == 2 && toks[0].Type == hclsyntax.TokenIdent && len(toks[0].Bytes) == len(d.Src) && len(d.Src) > 0
				if got := hclsyntax.ValidIdentifier(string(d.Src)); got != single {
					return engine.Fail("c14.lex.identonly.disagrees-with-normal-mode", "ValidIdentifier(%q) = %v but the normal mode reads it as %d tokens (first %v)", d.Src, got, len(toks), toks[0].Type)
				}
			}
		}
	}
	return engine.Pass(sig.String())
}
