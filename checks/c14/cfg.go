package main

import (
	"fmt"
	"strconv"
	"strings"

	"github.com/hashicorp/hcl/v2"
	"github.com/hashicorp/hcl/v2/hclsyntax"

	"verif/engine"
)

// ---- spans known by construction ----

type Span struct {
	S int `json:"s"`
	E int `json:"e"`
}

type XAttr struct {
	Name   string `json:"name"`
	NameSp Span   `json:"name_sp"`
	EqSp   Span   `json:"eq_sp"`
	ExprSp Span   `json:"expr_sp"`
}

type XBlock struct {
	Type     string   `json:"type"`
	TypeSp   Span     `json:"type_sp"`
	Labels   []string `json:"labels,omitempty"`
	LabelSps []Span   `json:"label_sps,omitempty"`
	OBrace   Span     `json:"obrace"`
	CBrace   Span     `json:"cbrace"`
	Body     *XBody   `json:"body"`
}

type XBody struct {
	Attrs  []XAttr  `json:"attrs,omitempty"`
	Blocks []XBlock `json:"blocks,omitempty"`
}

// bld accumulates source text and hands out the span of each piece.
type bld struct {
	sb strings.Builder
	nl string
}

func (w *bld) put(s string) Span {
	s = strings.ReplaceAll(s, "\n", w.nl)
	st := w.sb.Len()
	w.sb.WriteString(s)
	return Span{st, w.sb.Len()}
}

// attr writes `name<sp1>=<sp2>expr` and records the spans.
func (w *bld) attr(b *XBody, name, sp1, sp2, expr string) {
	a := XAttr{Name: name}
	a.NameSp = w.put(name)
	w.put(sp1)
	a.EqSp = w.put("=")
	w.put(sp2)
	a.ExprSp = w.put(expr)
	b.Attrs = append(b.Attrs, a)
}

type label struct {
	text string // as written
	val  string // as denoted
}

// block writes `type label* {` ... `}`; body is written by the callback.
func (w *bld) block(parent *XBody, typ string, labels []label, sep, afterOpen string, body func(b *XBody), beforeClose string) {
	x := XBlock{Type: typ, Body: &XBody{}}
	x.TypeSp = w.put(typ)
	for _, l := range labels {
		w.put(sep)
		x.Labels = append(x.Labels, l.val)
		x.LabelSps = append(x.LabelSps, w.put(l.text))
	}
	w.put(sep)
	x.OBrace = w.put("{")
	w.put(afterOpen)
	if body != nil {
		body(x.Body)
	}
	w.put(beforeClose)
	x.CBrace = w.put("}")
	parent.Blocks = append(parent.Blocks, x)
}

// ---- expression forms ----

type form struct {
	name    string
	text    string
	heredoc bool // ends in a heredoc closing marker: must be followed by a newline
	multi   bool // contains a newline
}

const eacute = "é" // "e" + combining acute accent: one grapheme cluster, three bytes

func exprForms() []form {
	fs := []form{
		{name: "int", text: `1`}, {name: "frac", text: `0.5`}, {name: "exp", text: `1e3`}, {name: "true", text: `true`}, {name: "null", text: `null`},
		{name: "str", text: `"s"`}, {name: "str-empty", text: `""`}, {name: "str-cluster", text: `"é` + eacute + `x"`},
		{name: "str-escapes", text: `"a\tb\\\"c"`}, {name: "str-interp", text: `"a${v}b"`}, {name: "str-wrap", text: `"${v}"`},
		{name: "str-escaped-seq", text: `"$${v}%%{x}"`}, {name: "str-strip", text: `"a ${~ v ~} b"`},
		{name: "str-if", text: `"%{if t}y%{else}n%{endif}"`}, {name: "str-if-noelse", text: `"p%{ if f }y%{ endif }q"`},
		{name: "str-for", text: `"%{ for x in l ~} ${x}, %{ endfor ~}"`}, {name: "str-nested", text: `"${"n${n}"}"`},
		{name: "str-if-quote", text: `"%{if t}\"q\"%{endif}"`},
		{name: "var", text: `v`}, {name: "trav", text: `o.a.b`}, {name: "index-lit", text: `l[0]`}, {name: "index-expr", text: `l[n - 7]`},
		{name: "index-str", text: `o["a"]`}, {name: "legacy-index", text: `l.0`}, {name: "trav-index", text: `o.a["b"]`},
		{name: "add", text: `1 + 2`}, {name: "arith", text: `n*(2-1)`}, {name: "neg", text: `-n`}, {name: "not", text: `!t`},
		{name: "logic", text: `t && f || t`}, {name: "eq", text: `n == 7`}, {name: "cond", text: `n >= 2 ? "x" : "y"`}, {name: "mod", text: `n % 2`},
		{name: "tuple-empty", text: `[]`}, {name: "tuple", text: `[1, 2]`}, {name: "tuple-multi", text: "[1,\n  2,\n]", multi: true},
		{name: "object-empty", text: `{}`}, {name: "object", text: `{a = 1, "b" = 2}`}, {name: "object-paren-key", text: `{ (v) = n }`},
		{name: "object-colon", text: `{a: 1}`}, {name: "object-multi", text: "{\n  a = 1\n  b = [v]\n}", multi: true}, {name: "object-trav-key", text: `{ (o.a.b) = 1 }`},
		{name: "call", text: `upper("a")`}, {name: "call2", text: `concat(l, l)`}, {name: "call-expand", text: `concat([l, l]...)`},
		{name: "call-ns", text: `ns::id(1)`}, {name: "call-multi", text: "upper(\n  v\n)", multi: true},
		{name: "for-tuple", text: `[for x in l : x]`}, {name: "for-object", text: `{for k, x in o : k => x}`},
		{name: "for-if", text: `[for i, x in l : "${i}${x}" if x != "x"]`}, {name: "for-group", text: `{for x in l : x => x...}`},
		{name: "splat-full", text: `l2[*].a`}, {name: "splat-attr", text: `l2.*.a`}, {name: "splat-index", text: `l2[*].a[0]`}, {name: "splat-bare", text: `l[*]`},
		{name: "splat-attr-legacy-index", text: `l2.*.a.0`}, {name: "splat-attr-legacy-only", text: `l3.*.0`}, {name: "splat-full-legacy", text: `l2[*].a.0`},
		{name: "splat-attr-bare", text: `l2.*`}, {name: "splat-attr-3-steps", text: `l2.*.a.0.x`}, {name: "splat-attr-spaced", text: `l2 . * . a . 0`},
		{name: "splat-full-spaced", text: "l2[ * ] . a"}, {name: "splat-attr-after-trav", text: `o.a.*.b.c`}, {name: "splat-attr-after-call", text: `concat(l2, l2).*.a.0`},
		{name: "splat-attr-after-paren", text: `(l2).*.a`}, {name: "splat-nested", text: `l3[*][*]`}, {name: "splat-attr-then-index", text: `l2.*.a[0]`},
		{name: "legacy-index-attr", text: `l2.0.a`}, {name: "call-legacy-index", text: `concat(l, l).0`},
		// postfix steps applied to a parenthesised expression (the parentheses are part of the construct's range)
		{name: "paren-ref-attr", text: `(o.a).b`}, {name: "paren-var-index-attr", text: `(o)["a"].b`}, {name: "paren-var-index", text: `(l2)[0].a`},
		{name: "paren-ref-attr-operand", text: `(o.a).b == 1`}, {name: "paren-paren-attr", text: `((o).a).b`}, {name: "paren-legacy-index", text: `(l).0`},
		{name: "paren-call-index", text: `(concat(l, l))[0]`}, {name: "paren-spaced-attr", text: `( o.a ) . b`}, {name: "paren-index-expr", text: `(l)[n - 7]`},
		{name: "unary-chain", text: `!!t`}, {name: "unary-chain-neg", text: `- -n`}, {name: "unary-mixed", text: `!(-n == 1)`},
		{name: "paren", text: `(v)`}, {name: "paren-multi", text: "(\n  1\n  +\n  2\n)", multi: true},
		{name: "heredoc", text: "<<EOT\nhello ${v}\n  é" + eacute + " x\nEOT", heredoc: true, multi: true},
		{name: "heredoc-flush", text: "<<-EOT\n    a\n      b ${v}\n    EOT", heredoc: true, multi: true},
		{name: "heredoc-directive", text: "<<EOT\n%{ if t ~}\ny\n%{ endif ~}\nEOT", heredoc: true, multi: true},
		{name: "heredoc-empty", text: "<<EOT\nEOT", heredoc: true, multi: true},
		{name: "heredoc-lone-cr", text: "<<EOT\nx\ry ${v} z\nEOT", heredoc: true, multi: true},
		{name: "heredoc-for", text: "<<E_1\n%{ for x in l }- ${x}\n%{ endfor ~}\nE_1", heredoc: true, multi: true},
	}
	return fs
}

// wrappers put a form into an expression position of a larger expression.
type wrapper struct {
	name string
	wrap func(f form) form
}

func exprWrappers() []wrapper {
	nlh := func(f form) string {
		if f.heredoc {
			return "\n"
		}
		return ""
	}
	return []wrapper{
		{"bare", func(f form) form { return f }},
		{"tuple", func(f form) form {
			return form{text: "[" + f.text + nlh(f) + ", " + f.text + nlh(f) + "]", multi: f.multi}
		}},
		{"call", func(f form) form {
			return form{text: "concat([" + f.text + nlh(f) + "], [" + f.text + nlh(f) + "])", multi: f.multi}
		}},
		{"object", func(f form) form {
			return form{text: "{ k = " + f.text + nlh(f) + "}", multi: f.multi}
		}},
		{"cond", func(f form) form {
			return form{text: "(t ? " + f.text + nlh(f) + " : " + f.text + nlh(f) + ")", multi: f.multi}
		}},
		{"interp", func(f form) form {
			return form{text: `"x${` + f.text + nlh(f) + `}y"`, multi: f.multi}
		}},
		{"paren", func(f form) form {
			return form{text: "( " + f.text + nlh(f) + " )", multi: f.multi}
		}},
		{"binop", func(f form) form {
			return form{text: "[" + f.text + nlh(f) + "] == [" + f.text + nlh(f) + "]", multi: f.multi}
		}},
	}
}

// contexts put an expression into a configuration.
type context struct {
	name  string
	build func(w *bld, root *XBody, f form)
}

func cfgContexts() []context {
	return []context{
		{"attr", func(w *bld, r *XBody, f form) {
			w.attr(r, "a", " ", " ", f.text)
			w.put("\n")
		}},
		{"attr-eof", func(w *bld, r *XBody, f form) {
			w.attr(r, "a", " ", " ", f.text)
		}},
		{"attr-tight", func(w *bld, r *XBody, f form) {
			w.attr(r, "a", "", "", f.text)
			w.put("\n")
			w.attr(r, "z", "\t", "\t ", f.text)
			if f.heredoc {
				w.put("\n") // anything after a heredoc closing marker belongs to the marker line
			} else {
				w.put(" \n")
			}
		}},
		{"block", func(w *bld, r *XBody, f form) {
			w.block(r, "b", nil, " ", "\n  ", func(b *XBody) { w.attr(b, "a", " ", " ", f.text); w.put("\n") }, "")
			w.put("\n")
		}},
		{"one-line-block", func(w *bld, r *XBody, f form) {
			w.block(r, "b", nil, " ", " ", func(b *XBody) { w.attr(b, "a", " ", " ", f.text) }, " ")
			w.put("\n")
		}},
		{"nested-block", func(w *bld, r *XBody, f form) {
			w.block(r, "b", []label{{`"l1"`, "l1"}, {"l2", "l2"}}, " ", "\n  ", func(b *XBody) {
				w.block(b, "c", nil, " ", "\n    ", func(c *XBody) { w.attr(c, "a", " ", " ", f.text); w.put("\n  ") }, "")
				w.put("\n")
			}, "")
			w.put("\n")
		}},
		{"comments", func(w *bld, r *XBody, f form) {
			w.put("# é" + eacute + " c\n// c\n/* c\n c */ ")
			w.attr(r, "a", " ", " ", f.text)
			if f.heredoc {
				w.put("\n# t\n")
			} else {
				w.put(" # t\n")
			}
			w.attr(r, "z", " ", " ", f.text)
			if f.heredoc {
				w.put("\n")
			} else {
				w.put(" /* t */ // u\n")
			}
		}},
		{"comments-lone-cr", func(w *bld, r *XBody, f form) {
			// inline comments holding a CR that is not part of CRLF: one column,
			// not a newline, so everything after them is still on the same line
			w.put("/* c\rd */ ")
			w.attr(r, "a", " /*\r*/ ", " ", f.text)
			if f.heredoc {
				w.put("\n")
			} else {
				w.put(" /* \r\r */ # t\ru\n")
			}
			w.put("/*\r*/")
			w.attr(r, "z", " ", " /* e\r */ ", f.text)
			w.put("\n")
		}},
		{"cluster-names", func(w *bld, r *XBody, f form) {
			w.attr(r, "é"+eacute+"x", " ", " ", f.text)
			w.put("\n")
			w.block(r, "e"+eacute, []label{{`"é` + eacute + ` l"`, "é" + eacute + " l"}}, " ", "\n", func(b *XBody) {
				w.put("\t")
				w.attr(b, "a-1", " ", " ", f.text)
				w.put("\n")
			}, "")
			w.put("\n")
		}},
		{"after-lines", func(w *bld, r *XBody, f form) {
			w.attr(r, "x", " ", " ", "1")
			w.put("\n\n  ")
			w.attr(r, "a", "   ", " ", f.text)
			w.put("\n\n")
			w.attr(r, "y", " ", " ", f.text)
			w.put("\n")
		}},
	}
}

func mkCfg(id string, w *bld, root *XBody, start int) engine.Case {
	src := []byte(w.sb.String())
	return engine.Case{ID: "cfg:" + id + ":" + strconv.Itoa(start), Data: Data{Kind: "cfg", Start: start, Src: src, Text: strconv.Quote(string(src)), Expect: root}}
}

// genConfigs: the product (form x wrapper x context x line ending x start
// position) plus the product of block header/body shapes.
func genConfigs() []engine.Case {
	var out []engine.Case
	forms, wraps, ctxs := exprForms(), exprWrappers(), cfgContexts()
	for _, f := range forms {
		for _, wr := range wraps {
			wf := wr.wrap(f)
			wf.heredoc = f.heredoc && wr.name == "bare"
			for _, cx := range ctxs {
				for nli, nl := range []string{"\n", "\r\n"} {
					w := &bld{nl: nl}
					root := &XBody{}
					cx.build(w, root, wf)
					for start := 0; start < 2; start++ {
						out = append(out, mkCfg(fmt.Sprintf("%s/%s/%s/nl%d", f.name, wr.name, cx.name, nli), w, root, start))
					}
				}
			}
		}
	}
	// block shapes
	types := []string{"b", "e" + eacute + "b", "b-1"}
	labelSets := [][]label{
		nil,
		{{"l", "l"}},
		{{`"l"`, "l"}},
		{{`"é` + eacute + ` l"`, "é" + eacute + " l"}},
		{{"l1", "l1"}, {`"l2"`, "l2"}},
		{{`"a\"b\\"`, `a"b\`}, {"x-y", "x-y"}, {`""`, ""}},
	}
	type bodyShape struct {
		name              string
		afterOpen, before string
		body              func(w *bld, b *XBody)
	}
	bodies := []bodyShape{
		{"empty", "", "", nil},
		{"space", " ", "", nil},
		{"newline", "\n", "", nil},
		{"one-line", " ", " ", func(w *bld, b *XBody) { w.attr(b, "a", " ", " ", "1") }},
		{"multi", "\n  ", "", func(w *bld, b *XBody) {
			w.attr(b, "a", " ", " ", "1")
			w.put("\n  ")
			w.block(b, "c", nil, " ", "", nil, "")
			w.put("\n")
		}},
		{"nested", "\n\t", "", func(w *bld, b *XBody) {
			w.block(b, "c", []label{{`"x"`, "x"}}, " ", "\n\t\t", func(c *XBody) {
				w.block(c, "d", nil, "", "", nil, "")
				w.put("\n\t")
			}, "")
			w.put("\n")
		}},
	}
	for ti, ty := range types {
		for li, ls := range labelSets {
			for _, bs := range bodies {
				for si, sep := range []string{" ", "\t", "  "} {
					for nli, nl := range []string{"\n", "\r\n"} {
						for ii, indent := range []string{"", "  "} {
							w := &bld{nl: nl}
							root := &XBody{}
							for rep := 0; rep < 2; rep++ { // two sibling blocks
								w.put(indent)
								var body func(b *XBody)
								if bs.body != nil {
									body = func(b *XBody) { bs.body(w, b) }
								}
								w.block(root, ty, ls, sep, bs.afterOpen, body, bs.before)
								w.put("\n")
							}
							for start := 0; start < 2; start++ {
								out = append(out, mkCfg(fmt.Sprintf("blk/t%d/l%d/%s/s%d/nl%d/i%d", ti, li, bs.name, si, nli, ii), w, root, start))
							}
						}
					}
				}
			}
		}
	}
	return out
}

// ---- judge ----

func spanOf(r hcl.Range, start hcl.Pos) Span {
	return Span{r.Start.Byte - start.Byte, r.End.Byte - start.Byte}
}

func (si *srcInfo) matchBody(x *XBody, body *hclsyntax.Body, path string) *engine.Outcome {
	want := func(what string, got hcl.Range, sp Span) *engine.Outcome {
		if g := spanOf(got, si.start); g != sp {
			return si.fail("c14.range."+what+".slice", "%s%s: range %v covers bytes [%d,%d) = %q but the construct was written at bytes [%d,%d) = %q",
				path, what, got, g.S, g.E, safeSlice(si.src, g.S, g.E), sp.S, sp.E, si.src[sp.S:sp.E])
		}
		return nil
	}
	if len(x.Attrs) != len(body.Attributes) || len(x.Blocks) != len(body.Blocks) {
		return si.fail("c14.cfg.shape", "%sbody has %d attributes and %d blocks, the generated text has %d and %d", path, len(body.Attributes), len(body.Blocks), len(x.Attrs), len(x.Blocks))
	}
	for _, xa := range x.Attrs {
		attr, ok := body.Attributes[xa.Name]
		if !ok {
			return si.fail("c14.cfg.shape", "%sattribute %q of the generated text is missing", path, xa.Name)
		}
		if o := want("attr-name", attr.NameRange, xa.NameSp); o != nil {
			return o
		}
		if o := want("attr-equals", attr.EqualsRange, xa.EqSp); o != nil {
			return o
		}
		if o := want("attr-expr", attr.Expr.Range(), xa.ExprSp); o != nil {
			return o
		}
		if o := want("attr", attr.SrcRange, Span{xa.NameSp.S, xa.ExprSp.E}); o != nil {
			return o
		}
	}
	for i, xb := range x.Blocks {
		blk := body.Blocks[i]
		p := fmt.Sprintf("%sblock %d %q: ", path, i, xb.Type)
		if blk.Type != xb.Type || len(blk.Labels) != len(xb.Labels) || len(blk.LabelRanges) != len(xb.Labels) {
			return si.fail("c14.cfg.shape", "%sparsed as type %q with %d labels", p, blk.Type, len(blk.Labels))
		}
		if o := want("block-type", blk.TypeRange, xb.TypeSp); o != nil {
			return o
		}
		defEnd := xb.TypeSp.E
		for j := range xb.Labels {
			if blk.Labels[j] != xb.Labels[j] {
				return si.fail("c14.cfg.shape", "%slabel %d parsed as %q, written to denote %q", p, j, blk.Labels[j], xb.Labels[j])
			}
			if o := want("block-label", blk.LabelRanges[j], xb.LabelSps[j]); o != nil {
				return o
			}
			defEnd = xb.LabelSps[j].E
		}
		if o := want("block-open-brace", blk.OpenBraceRange, xb.OBrace); o != nil {
			return o
		}
		if o := want("block-close-brace", blk.CloseBraceRange, xb.CBrace); o != nil {
			return o
		}
		if o := want("block-def", blk.DefRange(), Span{xb.TypeSp.S, defEnd}); o != nil {
			return o
		}
		if o := want("block", blk.Range(), Span{xb.TypeSp.S, xb.CBrace.E}); o != nil {
			return o
		}
		if o := si.matchBody(xb.Body, blk.Body, p); o != nil {
			return o
		}
	}
	return nil
}

func judgeCfg(d Data) engine.Outcome {
	if d.Expect == nil || d.Start < 0 || d.Start >= len(lexStarts) {
		return engine.Skip()
	}
	start := lexStarts[d.Start]
	f, diags := hclsyntax.ParseConfig(d.Src, fname, start)
	if diags.HasErrors() {
		// not an error-free configuration (e.g. a heredoc in a one-line
		// block): outside the range-fidelity part of the property
		nCfgWithErrors.Add(1)
		return engine.Pass("")
	}
	nCfgErrorFree.Add(1)
	si := newSrcInfo(d.Src, start, "ParseConfig")
	var sig strings.Builder
	body := f.Body.(*hclsyntax.Body)
	if o := si.matchBody(d.Expect, body, ""); o != nil {
		return *o
	}
	if o := si.checkBody(body, &sig); o != nil {
		return *o
	}
	return engine.Pass(sig.String())
}
