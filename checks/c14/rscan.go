package main

import (
	"bufio"
	"bytes"
	"fmt"

	"github.com/hashicorp/hcl/v2"

	"verif/engine"
	"verif/ref/refpos"
)

var splitFns = map[string]bufio.SplitFunc{
	"lines": bufio.ScanLines,
	"words": bufio.ScanWords,
	"bytes": bufio.ScanBytes,
}

var rsStarts = []hcl.Pos{hcl.InitialPos, {Line: 3, Column: 5, Byte: 0}, {Line: 3, Column: 5, Byte: 17}}

type refTok struct {
	off, end int  // token bytes = buf[off:end]
	advEnd   int  // end of the advance that produced the token
	advStart int  // start of that advance
	none     bool // the split function advanced without returning a token
}

// refScan drives the split function over buf the way a scanner over an
// in-memory buffer must (whole remainder, atEOF = true).
func refScan(buf []byte, split bufio.SplitFunc) []refTok {
	var out []refTok
	off := 0
	for off < len(buf) {
		data := buf[off:]
		adv, tok, err := split(data, true)
		if err != nil || (adv == 0 && tok == nil) || adv < 0 || adv > len(data) {
			break
		}
		if tok == nil {
			out = append(out, refTok{off: off, end: off, advStart: off, advEnd: off + adv, none: true})
		} else {
			// tok is a sub-slice of data; both extend to the same end of the
			// backing array, so the difference of capacities is its offset.
			rel := cap(data) - cap(tok)
			if rel < 0 || rel+len(tok) > len(data) || !bytes.Equal(data[rel:rel+len(tok)], tok) {
				return nil // not a sub-slice (never for the stdlib split functions)
			}
			out = append(out, refTok{off: off + rel, end: off + rel + len(tok), advStart: off, advEnd: off + adv})
		}
		if adv == 0 {
			break
		}
		off += adv
	}
	return out
}

func judgeRS(d Data) engine.Outcome {
	split, ok := splitFns[d.Split]
	if !ok || d.Start < 0 || d.Start >= len(rsStarts) {
		return engine.Skip()
	}
	src := d.Src
	start := rsStarts[d.Start]
	var sc *hcl.RangeScanner
	ctor := "NewRangeScanner"
	if d.Start == 0 {
		sc = hcl.NewRangeScanner(src, fname, split)
	} else {
		ctor = fmt.Sprintf("NewRangeScannerFragment(start=%+v)", start)
		sc = hcl.NewRangeScannerFragment(src, fname, start, split)
	}
	variant := "whole"
	if d.Start != 0 {
		variant = "fragment"
	}
	fail := func(class, format string, a ...any) engine.Outcome {
		if d.Start == 2 {
			// A fragment with a non-zero start byte is one construct: the
			// buffer is the fragment and the start position only offsets the
			// reported ranges. Whatever goes wrong there first is reported
			// under this one class.
			class = "c14.fragment-scanner-nonzero-start"
		}
		return engine.Fail(class, "%s over %q with Scan%s: %s", ctor, src, d.Split, fmt.Sprintf(format, a...))
	}
	seqClass := "c14.rangescanner." + variant + ".token-sequence"

	want := refScan(src, split)
	ix := refpos.New(src, start.Line, start.Column)
	// columns are asserted when every token boundary and every advance
	// boundary (where the scanner re-synchronises) is a well-defined cluster
	// boundary; lone CR makes all positions Unspecified.
	posOK := !ix.LoneCR
	colsOK := posOK
	for _, w := range want {
		if !ix.ColDefined(w.off) || !ix.ColDefined(w.end) || !ix.ColDefined(w.advEnd) || !ix.ColDefined(w.advStart) {
			colsOK = false
		}
		// pos_scanner.go: "the scanner will produce incorrect results if the
		// given SplitFunc creates tokens between grapheme cluster boundaries";
		// CRLF is one cluster, so a split inside it voids the line clause too.
		if ix.InsideCRLF(w.off) || ix.InsideCRLF(w.end) || ix.InsideCRLF(w.advEnd) || ix.InsideCRLF(w.advStart) {
			posOK, colsOK = false, false
		}
	}
	checked := 0
	lastCol := 0
	wi := 0
	for sc.Scan() {
		r := sc.Range()
		got := sc.Bytes()
		s, e := r.Start.Byte-start.Byte, r.End.Byte-start.Byte
		// an advance without a token may or may not be surfaced as an empty token
		for wi < len(want) && want[wi].none && !(len(got) == 0 && s == e && s >= want[wi].advStart && e <= want[wi].advEnd) {
			wi++
		}
		if wi >= len(want) {
			return fail(seqClass, "extra token %q with range %v beyond the %d tokens the split function yields", got, r, len(want))
		}
		w := want[wi]
		wi++
		if !w.none {
			if !bytes.Equal(got, src[w.off:w.end]) {
				return fail(seqClass, "token %d is %q, the split function yields %q", wi-1, got, src[w.off:w.end])
			}
			// pos_scanner.go: "the scanner will produce incorrect results if
			// the given SplitFunc creates tokens between grapheme cluster
			// boundaries": the byte range is demanded only for tokens (and
			// advances) that begin and end on cluster boundaries.
			clean := ix.Boundary(w.off) && ix.Boundary(w.end) && ix.Boundary(w.advStart) && ix.Boundary(w.advEnd)
			if clean && (s != w.off || e != w.end) {
				if w.off != w.advStart {
					return fail("c14.rangescanner.token-after-skipped-prefix", "token %d %q sits at bytes [%d,%d) of the buffer (the split function skipped %q first) but Range() reports bytes [%d,%d), which slice to %q",
						wi-1, got, w.off, w.end, src[w.advStart:w.off], s, e, safeSlice(src, s, e))
				}
				return fail("c14.rangescanner."+variant+".range-slice", "token %d %q sits at bytes [%d,%d) of the buffer but Range() reports bytes [%d,%d), which slice to %q", wi-1, got, w.off, w.end, s, e, safeSlice(src, s, e))
			}
		}
		if r.Filename != fname {
			return fail("c14.rangescanner.filename", "token %d has filename %q", wi-1, r.Filename)
		}
		checked++
		if !posOK {
			continue
		}
		for k, p := range []hcl.Pos{r.Start, r.End} {
			which := []string{"start", "end"}[k]
			off := p.Byte - start.Byte
			if ix.LineDefined(off) && p.Line != ix.Line(off) {
				return fail("c14.rangescanner."+variant+".line", "token %d %q %s: line %d at byte %d, counting newlines gives %d", wi-1, got, which, p.Line, p.Byte, ix.Line(off))
			}
			if colsOK && p.Column != ix.Col(off) {
				return fail("c14.rangescanner."+variant+".column", "token %d %q %s: column %d at byte %d, counting grapheme clusters gives %d", wi-1, got, which, p.Column, p.Byte, ix.Col(off))
			}
			lastCol = p.Column
		}
	}
	for ; wi < len(want); wi++ {
		if !want[wi].none {
			return fail(seqClass, "scanner stopped after %d tokens; the split function yields a further token %q at byte %d", checked, src[want[wi].off:want[wi].end], want[wi].off)
		}
	}
	if sc.Err() != nil {
		return fail("c14.rangescanner.error", "Err() = %v for a stdlib split function", sc.Err())
	}
	if len(want) == 0 {
		return engine.Pass("")
	}
	if !colsOK {
		nRSNoCols.Add(1)
	}
	return engine.Pass(fmt.Sprintf("rs-%s-%d-tokens=%d-pos=%v/%v-col=%d", d.Split, d.Start, checked, posOK, colsOK, lastCol))
}

func safeSlice(b []byte, s, e int) []byte {
	if s < 0 || e > len(b) || s > e {
		return []byte("<out of bounds>")
	}
	return b[s:e]
}
