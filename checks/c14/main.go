// C14 — Tokens tile the source and every reported position is faithful.
//
// Bounded exhaustive exploration, on the real code, of
//
//	(lex)   every byte string up to a length over a lexer-relevant alphabet,
//	        and every single-byte edit of a corpus of small configurations,
//	        through hclsyntax.LexConfig / LexExpression / LexTemplate from two
//	        start positions: tiling invariants + agreement of every line and
//	        column with an independent position counter (verif/ref/refpos);
//	(parse) the same strings through ParseConfig / ParseExpression /
//	        ParseTemplate: whenever the parse is error-free every recorded
//	        range must slice the source to its construct and every expression
//	        range must re-parse to an equivalent expression;
//	(rs)    hcl.RangeScanner / NewRangeScannerFragment with three split
//	        functions against a reference loop over the same split function;
//	(cfg)   a grammar-generated product of configurations (expression form x
//	        syntactic context) whose construct spans are known by construction;
//	(json)  JSON documents: ranges of every node reachable through the
//	        exported API against an independent span walker.
package main

import (
	"encoding/hex"
	"runtime/debug"
	"strconv"
	"sync/atomic"
	"time"

	"verif/engine"
)

type Data struct {
	Kind   string `json:"kind"`            // src (= lex normal, lex template, parse) | lex | parse | rs | cfg | json
	Mode   string `json:"mode,omitempty"`  // lex: normal | template
	Split  string `json:"split,omitempty"` // rs: lines | words | bytes
	Start  int    `json:"start,omitempty"` // rs: 0 whole buffer, 1 fragment {3,5,0}, 2 fragment {3,5,17}; cfg: 0 initial, 1 {3,5,17}
	Src    []byte `json:"src"`
	Text   string `json:"text"`             // informational: %q of Src
	Expect *XBody `json:"expect,omitempty"` // cfg: construct spans known by construction
}

var counters engine.Counter

// cheap lock-free coverage counters (reported as extra evidence keys)
var nLexNoCols, nRSNoCols, nParseOK, nExprNodes, nExprReparsed, nStructRanges, nJSONNodes, nJSONAccepted, nCfgErrorFree, nCfgWithErrors atomic.Int64

func mk(kind, mode string, b []byte) engine.Case {
	c := append([]byte(nil), b...)
	return engine.Case{ID: kind + ":" + mode + ":" + hex.EncodeToString(c), Data: Data{Kind: kind, Mode: mode, Src: c, Text: strconv.Quote(string(c))}}
}

func mkRS(split string, start int, b []byte) engine.Case {
	c := append([]byte(nil), b...)
	return engine.Case{ID: "rs:" + split + strconv.Itoa(start) + ":" + hex.EncodeToString(c),
		Data: Data{Kind: "rs", Split: split, Start: start, Src: c, Text: strconv.Quote(string(c))}}
}

// The lexer-relevant alphabet (33 bytes): ASCII that drives the scanner's
// state machine, CR/LF/TAB/SP, the two bytes of "é" (U+00E9), the two bytes
// of the combining acute accent U+0301, two ill-formed bytes, the three bytes
// of the UTF-8 byte order mark, and the backslash.
var lexAlphabet = []byte{'a', '1', '.', '"', '$', '%', '{', '}', '~', '<', '-', '=', '#', '/', '*', '[', '(', ',', ':',
	' ', '\t', '\n', '\r', 0xc3, 0xa9, 0xcc, 0x81, 0x80, 0xff, 0xef, 0xbb, 0xbf, '\\'}

// sub-alphabet that matters to RangeScanner (white space, newlines, cluster
// structure, ill-formed bytes)
var rsAlphabet = []byte{'a', ' ', '\t', '\n', '\r', 0xc3, 0xa9, 0xcc, 0x81, 0x80, 0xff}

// JSON-relevant alphabet
var jsonAlphabet = []byte{'[', ']', '{', '}', '"', ':', ',', '1', 'a', ' ', '\t', '\n', '\r', 0xc3, 0xa9, 0xcc, 0x81, '\\'}

// allStrings enumerates all strings of exactly length l over alpha.
func allStrings(alpha []byte, l int, f func([]byte) bool) bool {
	buf := make([]byte, l)
	idx := make([]int, l)
	for i := range buf {
		buf[i] = alpha[0]
	}
	for {
		if !f(buf) {
			return false
		}
		k := l - 1
		for k >= 0 {
			idx[k]++
			if idx[k] < len(alpha) {
				buf[k] = alpha[idx[k]]
				break
			}
			idx[k] = 0
			buf[k] = alpha[0]
			k--
		}
		if k < 0 {
			return true
		}
	}
}

// edits enumerates every single-byte delete / insert / replace of b.
func edits(b []byte, alpha []byte, f func([]byte) bool) bool {
	for i := 0; i <= len(b); i++ {
		if i < len(b) {
			del := append(append([]byte{}, b[:i]...), b[i+1:]...)
			if !f(del) {
				return false
			}
		}
		for _, a := range alpha {
			ins := append(append(append([]byte{}, b[:i]...), a), b[i:]...)
			if !f(ins) {
				return false
			}
			if i < len(b) && b[i] != a {
				rep := append([]byte{}, b...)
				rep[i] = a
				if !f(rep) {
					return false
				}
			}
		}
	}
	return true
}

var rsSplits = []string{"lines", "words", "bytes"}

// lexUnits: the lexical units that open and close the scanner's modes and
// token kinds (inline comment, line comment, quoted template, interpolation,
// directive, heredoc) together with the three line-ending shapes (LF, CRLF and
// the lone CR, which is not a newline sequence), ASCII and non-ASCII content
// and blanks. Sequences of a few units reach what byte strings of the same
// length cannot: a CR / CRLF / LF inside each token kind and each mode with
// content after it on the same line ("/*" CR "*/" a; quote CR quote a;
// "<<E\n" CR a "${"; "%{" CR "}" a; ...).
var lexUnits = []string{"a", "1", " ", "\t", "\r", "\n", "\r\n", "/*", "*/", "#", "\"", "${", "%{", "}", "<<E\n", "\nE\n", "e\u0301"}

// allUnitSeqs enumerates the concatenations of exactly l units (each distinct
// byte string once, in enumeration order).
func allUnitSeqs(units []string, l int, seen map[string]bool, f func([]byte) bool) bool {
	idx := make([]int, l)
	for {
		var sb []byte
		for _, k := range idx {
			sb = append(sb, units[k]...)
		}
		if !seen[string(sb)] {
			seen[string(sb)] = true
			if !f(sb) {
				return false
			}
		}
		k := l - 1
		for k >= 0 {
			idx[k]++
			if idx[k] < len(units) {
				break
			}
			idx[k] = 0
			k--
		}
		if k < 0 {
			return true
		}
	}
}

func gen(tier string, emit func(engine.Case) bool) {
	thorough := tier == "thorough"
	lexLen, rsFullLen, rsSubLen, jsonLen := 4, 2, 4, 4
	if thorough {
		lexLen, rsFullLen, rsSubLen, jsonLen = 5, 3, 6, 5
	}

	emitSrc := func(b []byte) bool {
		return emit(mk("src", "", b))
	}
	emitRS := func(b []byte) bool {
		for _, sp := range rsSplits {
			for st := 0; st < 3; st++ {
				if !emit(mkRS(sp, st, b)) {
					return false
				}
			}
		}
		return true
	}

	// 1. generated configurations with construct spans known by construction
	for _, c := range genConfigs() {
		if !emit(c) {
			return
		}
	}
	// 2. generated JSON documents
	for _, doc := range jsonCorpus() {
		if !emit(mk("json", "", []byte(doc))) {
			return
		}
	}
	// 3. the edit corpus itself (lexer, parser, RangeScanner)
	for _, s := range editCorpus() {
		if !emitSrc([]byte(s)) || !emitRS([]byte(s)) {
			return
		}
	}
	// 4. all short byte strings, by increasing length (simplest first)
	maxLen := lexLen
	for _, l := range []int{rsSubLen, jsonLen} {
		if l > maxLen {
			maxLen = l
		}
	}
	for l := 0; l <= maxLen; l++ {
		if l <= lexLen && !allStrings(lexAlphabet, l, emitSrc) {
			return
		}
		if l <= rsFullLen {
			if !allStrings(lexAlphabet, l, emitRS) {
				return
			}
		} else if l <= rsSubLen {
			if !allStrings(rsAlphabet, l, emitRS) {
				return
			}
		}
		if l <= jsonLen && !allStrings(jsonAlphabet, l, func(b []byte) bool { return emit(mk("json", "", b)) }) {
			return
		}
	}
	// 4b. all sequences of lexical units, by increasing length
	unitLen := 4
	if thorough {
		unitLen = 5
	}
	seenUnits := map[string]bool{}
	for l := 1; l <= unitLen; l++ {
		if !allUnitSeqs(lexUnits, l, seenUnits, emitSrc) {
			return
		}
	}
	// 5. every single-byte edit of every corpus entry
	for _, s := range editCorpus() {
		if !edits([]byte(s), lexAlphabet, emitSrc) {
			return
		}
	}
	for _, doc := range jsonCorpus() {
		if len(doc) > 40 && !thorough {
			continue
		}
		if !edits([]byte(doc), jsonAlphabet, func(b []byte) bool { return emit(mk("json", "", b)) }) {
			return
		}
	}
}

func judge(c engine.Case) engine.Outcome {
	d := c.Data.(Data)
	switch d.Kind {
	case "src":
		// priority order: lexer (normal modes), lexer (template mode), parsers
		var sig string
		cache := &ixCache{src: d.Src}
		for _, m := range []string{"normal", "template"} {
			d.Mode = m
			o := judgeLexWith(d, cache)
			if o.V != engine.OK {
				return o
			}
			sig += o.Sig
		}
		o := judgeParseWith(d, cache)
		if o.V == engine.Viol {
			return o
		}
		return engine.Pass(sig + o.Sig)
	case "lex":
		return judgeLex(d)
	case "parse":
		return judgeParse(d)
	case "rs":
		return judgeRS(d)
	case "cfg":
		return judgeCfg(d)
	case "json":
		return judgeJSON(d)
	}
	return engine.Skip()
}

func shrink(c engine.Case) []engine.Case {
	d := c.Data.(Data)
	if d.Kind == "cfg" {
		return nil // spans are tied to the text
	}
	var out []engine.Case
	for i := range d.Src {
		b := append(append([]byte{}, d.Src[:i]...), d.Src[i+1:]...)
		nd := d
		nd.Src = b
		nd.Text = strconv.Quote(string(b))
		id := d.Kind + ":" + d.Mode + ":" + hex.EncodeToString(b)
		if d.Kind == "rs" {
			id = "rs:" + d.Split + strconv.Itoa(d.Start) + ":" + hex.EncodeToString(b)
		}
		out = append(out, engine.Case{ID: id, Data: nd})
	}
	return out
}

func main() {
	// the cases allocate many short-lived small objects; collect less often
	debug.SetGCPercent(400)
	engine.Main(&engine.Check{
		ID:        "C14",
		Title:     "Tokens tile the source and every reported position is faithful",
		Technique: "bounded exhaustive enumeration of byte strings, single-byte edits and grammar-generated configurations; tiling invariants, agreement with an independent newline/grapheme position counter, spans known by construction, re-parse equivalence",
		Rule: "lex/parse: all byte strings of length <= 4 (quick) / <= 5 (thorough) over a 33-byte lexer alphabet (a 1 . \" $ % { } ~ < - = # / * [ ( , : SP TAB LF CR, bytes of U+00E9, bytes of combining U+0301, 0x80, 0xff, the three BOM bytes, backslash) " +
			"and every single-byte delete/insert/replace of a corpus of small configurations (heredocs incl. flush, nested templates, directives, three comment kinds, CRLF, multi-byte and combining characters, one-line blocks), each through LexConfig, LexExpression, LexTemplate from positions {1,1,0} and {3,5,17}, " +
			"and through ParseConfig/ParseExpression/ParseTemplate with the range-fidelity oracle on every error-free parse (every range-typed field of every AST node, found by reflection: well-formed, positions faithful, documented delimiters/markers/names slice to their text); " +
			"all sequences of <= 4 (quick) / <= 5 (thorough) of 17 lexical units (a 1 SP TAB CR LF CRLF /* */ # \" ${ %{ } <<E\\n \\nE\\n e+U+0301) through the same entry points (a lone CR is one column and no newline in the native syntax); " +
			"rs: RangeScanner / NewRangeScannerFragment x {ScanLines, ScanWords, ScanBytes} x starts {whole, {3,5,0}, {3,5,17}} over all strings <= 2/3 of the lexer alphabet and <= 4/6 of an 11-byte white-space/cluster alphabet; " +
			"cfg: product (expression forms x expression wrappers x syntactic contexts x 2 start positions) and (block header forms x body forms x line endings) with spans known by construction; " +
			"json: grammar-generated documents x white-space styles, all strings <= 4/5 over an 18-byte JSON alphabet, single-byte edits of the documents. " +
			"Non-trivial = at least one token / node was checked; distinct = distinct (token-type sequence, end position) resp. (node kinds, values) observations.",
		Assumptions: []string{
			"go-textseg grapheme segmentation and unicode/utf8 are trusted (used by the reference position counter)",
			"bufio.ScanLines/ScanWords/ScanBytes are trusted (the RangeScanner reference drives the same split function)",
			"re-parse equivalence uses hclsyntax.ParseExpression/ParseTemplate and Value() on both sides of a relation (two executions of the code under test), not as ground truth",
			"verif/ref/refjson (independent RFC 8259 parser) provides JSON value spans",
		},
		Gen:    gen,
		Judge:  judge,
		Load:   engine.LoadAs[Data],
		Shrink: shrink,
		Extra: func() map[string]any {
			m := map[string]any{}
			for k, v := range counters.Snapshot() {
				m[k] = v
			}
			m["lex_streams_column_clause_not_applicable"] = nLexNoCols.Load()
			m["rangescanner_cases_column_clause_not_applicable"] = nRSNoCols.Load()
			m["error_free_parses_checked"] = nParseOK.Load()
			m["expression_nodes_checked"] = nExprNodes.Load()
			m["expression_nodes_reparsed_and_compared"] = nExprReparsed.Load()
			m["structural_ranges_checked"] = nStructRanges.Load()
			m["node_range_fields_checked"] = nRangeFields.Load()
			m["node_range_fields_with_documented_text_checked"] = nRangeFieldMeanings.Load()
			m["json_documents_accepted"] = nJSONAccepted.Load()
			m["json_nodes_checked"] = nJSONNodes.Load()
			m["generated_configs_error_free"] = nCfgErrorFree.Load()
			m["generated_configs_with_errors_skipped"] = nCfgWithErrors.Load()
			return m
		},
		QuickBudget:    4 * time.Minute,
		ThoroughBudget: 40 * time.Minute,
	})
}
