package main

import (
	"fmt"
	"strings"

	"github.com/hashicorp/hcl/v2"
	hcljson "github.com/hashicorp/hcl/v2/json"

	"verif/engine"
	"verif/ref/refjson"
	"verif/ref/refpos"
)

// jsonCorpus: documents of a small grammar x white-space styles.
func jsonCorpus() []string {
	vals := []string{`1`, `-1.5e3`, `true`, `null`, `"s"`, `"é` + eacute + ` ${v}"`, `"a\"b\\"`, `[]`, `{}`}
	// a document is a token list; a style says what is written before the
	// first token, between tokens and after the last one
	styles := [][3]string{
		{"", "", ""},
		{" ", " ", " "},
		{"", "\n  ", "\n"},
		{"\r\n", "\r\n ", "\r\n"},
		{"\t", "\t", "\t"},
		{"\n\t", " \t", ""},
	}
	var docs [][]string
	for _, v := range vals {
		docs = append(docs, []string{v})
	}
	for _, v1 := range vals {
		for _, v2 := range vals {
			docs = append(docs, []string{"[", v1, ",", v2, "]"})
			docs = append(docs, []string{"{", `"k"`, ":", v1, ",", `"é` + eacute + `"`, ":", v2, "}"})
		}
	}
	for _, v := range vals {
		docs = append(docs, []string{"{", `"a"`, ":", "[", v, ",", "{", `"b"`, ":", v, "}", "]", ",", `"c"`, ":", "{", `"d"`, ":", "[", "[", v, "]", "]", "}", "}"})
	}
	var out []string
	for _, d := range docs {
		for _, st := range styles {
			out = append(out, st[0]+strings.Join(d, st[1])+st[2])
		}
	}
	return out
}

type jsonChecker struct {
	src     []byte
	ix      *refpos.Index
	colsOK  bool
	nodes   int
	sig     strings.Builder
	outcome *engine.Outcome
}

func (jc *jsonChecker) fail(class, format string, a ...any) {
	if jc.outcome == nil {
		o := engine.Fail(class, "json.ParseExpression(%q): %s", jc.src, fmt.Sprintf(format, a...))
		jc.outcome = &o
	}
}

// tabBefore: a tab precedes offset off on its line.
func (jc *jsonChecker) tabBefore(off int) bool {
	for i := off - 1; i >= 0 && jc.src[i] != '\n'; i-- {
		if jc.src[i] == '\t' {
			return true
		}
	}
	return false
}

// expectRange: r covers exactly bytes [s,e) and its positions are faithful.
func (jc *jsonChecker) expectRange(r hcl.Range, what string, s, e int) {
	if jc.outcome != nil {
		return
	}
	jc.nodes++
	if r.Start.Byte != s || r.End.Byte != e {
		jc.fail("c14.json."+what+".slice", "%s range %v covers bytes [%d,%d) = %q, the value text is bytes [%d,%d) = %q", what, r, r.Start.Byte, r.End.Byte, safeSlice(jc.src, r.Start.Byte, r.End.Byte), s, e, jc.src[s:e])
		return
	}
	if r.Filename != fname {
		jc.fail("c14.json."+what+".filename", "%s range has filename %q", what, r.Filename)
		return
	}
	if jc.ix.LoneCR {
		return
	}
	for k, p := range []hcl.Pos{r.Start, r.End} {
		which := []string{"start", "end"}[k]
		if jc.ix.LineDefined(p.Byte) && p.Line != jc.ix.Line(p.Byte) {
			jc.fail("c14.json.line", "%s range %s: line %d at byte %d, counting newlines gives %d", what, which, p.Line, p.Byte, jc.ix.Line(p.Byte))
			return
		}
		if jc.colsOK && jc.ix.ColDefined(p.Byte) && p.Column != jc.ix.Col(p.Byte) {
			class := "c14.json.column"
			if jc.tabBefore(p.Byte) {
				// construct + condition: a position on a line on which a tab precedes it
				class = "c14.json.column-after-tab"
			}
			jc.fail(class, "%s range %s: column %d at byte %d, counting grapheme clusters gives %d", what, which, p.Column, p.Byte, jc.ix.Col(p.Byte))
			return
		}
	}
}

func skipWS(b []byte, i int) int {
	for i < len(b) && (b[i] == ' ' || b[i] == '\t' || b[i] == '\n' || b[i] == '\r') {
		i++
	}
	return i
}

// stringEnd returns the offset just after the string literal starting at i
// (the document is known to be valid JSON).
func stringEnd(b []byte, i int) int {
	i++
	for i < len(b) {
		switch b[i] {
		case '\\':
			i += 2
		case '"':
			return i + 1
		default:
			i++
		}
	}
	return i
}

func (jc *jsonChecker) compare(expr hcl.Expression, n *refjson.Node) {
	if jc.outcome != nil {
		return
	}
	kind := []string{"null", "bool", "number", "string", "array", "object"}[n.Kind]
	jc.sig.WriteString(kind[:2])
	jc.expectRange(expr.Range(), kind, n.Start, n.End)
	switch n.Kind {
	case refjson.Array, refjson.Object:
		jc.expectRange(expr.StartRange(), kind+"-start", n.Start, n.Start+1)
	default:
		jc.expectRange(expr.StartRange(), kind+"-start", n.Start, n.End)
	}
	if jc.outcome != nil {
		return
	}
	switch n.Kind {
	case refjson.Array:
		elems, diags := hcl.ExprList(expr)
		if diags.HasErrors() || len(elems) != len(n.Elems) {
			jc.fail("c14.json.array.shape", "ExprList of the array at byte %d yields %d elements (%s), the text has %d", n.Start, len(elems), diags.Error(), len(n.Elems))
			return
		}
		for i, e := range elems {
			jc.compare(e, n.Elems[i])
		}
	case refjson.Object:
		pairs, diags := hcl.ExprMap(expr)
		if diags.HasErrors() || len(pairs) != len(n.Members) {
			jc.fail("c14.json.object.shape", "ExprMap of the object at byte %d yields %d pairs (%s), the text has %d", n.Start, len(pairs), diags.Error(), len(n.Members))
			return
		}
		pos := n.Start + 1
		for i, kv := range pairs {
			ks := skipWS(jc.src, pos)
			ke := stringEnd(jc.src, ks)
			jc.expectRange(kv.Key.Range(), "object-key", ks, ke)
			jc.compare(kv.Value, n.Members[i].Val)
			pos = skipWS(jc.src, n.Members[i].Val.End)
			if pos < len(jc.src) && jc.src[pos] == ',' {
				pos++
			}
		}
	}
}

func judgeJSON(d Data) engine.Outcome {
	src := d.Src
	expr, diags := hcljson.ParseExpression(src, fname)
	if diags.HasErrors() || expr == nil {
		return engine.Pass("")
	}
	ref, ok := refjson.Parse(src)
	if !ok {
		// accepted but not JSON: acceptance is C13's subject, nothing to compare spans with
		return engine.Skip()
	}
	nJSONAccepted.Add(1)
	jc := &jsonChecker{src: src, ix: refpos.New(src, 1, 1)}
	// The JSON scanner counts columns bytewise for everything but the inside
	// of strings; the column clause is asserted when no ASCII byte is glued
	// into a longer grapheme cluster (e.g. a combining mark directly after a
	// quote), i.e. when the scanner's units fall on cluster boundaries.
	jc.colsOK = !jc.ix.LoneCR && !jc.ix.AsciiJoined && jc.ix.ValidUTF8
	jc.compare(expr, ref)
	if jc.outcome != nil {
		return *jc.outcome
	}
	// the same document as a body: attribute name and value ranges
	if ref.Kind == refjson.Object {
		f, fd := hcljson.Parse(src, fname)
		if !fd.HasErrors() {
			attrs, ad := f.Body.JustAttributes()
			if !ad.HasErrors() && len(attrs) == len(ref.Members) {
				pos := ref.Start + 1
				for _, m := range ref.Members {
					ks := skipWS(src, pos)
					ke := stringEnd(src, ks)
					pos = skipWS(src, m.Val.End)
					if pos < len(src) && src[pos] == ',' {
						pos++
					}
					a, ok := attrs[m.Name]
					if !ok {
						continue // names are templates in the general case; only literal names are matched
					}
					jc.expectRange(a.NameRange, "attr-name", ks, ke)
					jc.expectRange(a.Expr.Range(), "attr-expr", m.Val.Start, m.Val.End)
					jc.expectRange(a.Range, "attr", ks, m.Val.End)
				}
			}
		}
		if jc.outcome != nil {
			return *jc.outcome
		}
	}
	nJSONNodes.Add(int64(jc.nodes))
	return engine.Pass("json:" + jc.sig.String() + fmt.Sprint(expr.Range().End.Line, expr.Range().End.Column))
}
