package main

import (
	"bytes"
	"reflect"
	"strings"
	"sync/atomic"
	"unicode/utf8"

	"github.com/hashicorp/hcl/v2"
	"github.com/hashicorp/hcl/v2/hclsyntax"

	"verif/engine"
)

// Every range an error-free parse exposes — not only Range() of each
// expression node but every exported hcl.Range / []hcl.Range / hcl.Traversal
// field of every node hclsyntax.Walk reaches, including the nodes that are not
// expressions of the grammar (the anonymous symbol of a splat, the per-element
// part of a splat) — must be a range at all: Start.Byte <= End.Byte, inside
// the buffer, right file name, line/column as the reference counter gives them
// for its byte offsets. The fields are found by reflection, so a field added
// to a node type later is covered without touching this file.
//
// Where the field name documents which piece of syntax the range is
// (MarkerRange = the ".*" / "[*]" marker of a splat, OpenParenRange = "(",
// NameRange = the function name, a traversal step = ".name" / "[key]", …) the
// range must slice the source to that piece. White space between the tokens
// of a piece is legal (`l . * . a`, `l[ * ]`), so multi-token pieces are
// compared with white space removed; texts containing a comment are left
// alone.

var (
	rangeType     = reflect.TypeOf(hcl.Range{})
	rangesType    = reflect.TypeOf([]hcl.Range(nil))
	traversalType = reflect.TypeOf(hcl.Traversal(nil))
)

var nRangeFields, nRangeFieldMeanings atomic.Int64

func stripWS(b []byte) string {
	var sb strings.Builder
	for _, c := range b {
		if c != ' ' && c != '\t' && c != '\n' && c != '\r' {
			sb.WriteByte(c)
		}
	}
	return sb.String()
}

func hasComment(b []byte) bool {
	return bytes.Contains(b, []byte("/*")) || bytes.Contains(b, []byte("//")) || bytes.IndexByte(b, '#') >= 0
}

// fieldMeaning says whether the text a range field slices to is the piece of
// syntax the field is named after. ok=true when it is or when the field has
// no unambiguous meaning; otherwise want describes what was expected.
func fieldMeaning(node hclsyntax.Node, field string, fr *frame, text []byte) (ok bool, want string) {
	if hasComment(text) || !utf8.Valid(text) {
		return true, ""
	}
	t := string(text)
	sw := stripWS(text)
	oneOf := func(opts ...string) (bool, string) {
		for _, o := range opts {
			if sw == o {
				return true, o
			}
		}
		return false, strings.Join(opts, " or ")
	}
	switch n := node.(type) {
	case *hclsyntax.SplatExpr:
		if field == "MarkerRange" {
			return oneOf(".*", "[*]")
		}
	case *hclsyntax.FunctionCallExpr:
		switch field {
		case "NameRange":
			return t == n.Name, n.Name
		case "OpenParenRange":
			return t == "(", "("
		case "CloseParenRange":
			return t == ")", ")"
		}
	case *hclsyntax.IndexExpr:
		switch field {
		case "OpenRange":
			return t == "[", "["
		case "BracketRange":
			return strings.HasPrefix(t, "[") && strings.HasSuffix(t, "]") && len(t) >= 2, "[ ... ]"
		}
	case *hclsyntax.TupleConsExpr:
		if field == "OpenRange" {
			return t == "[", "["
		}
	case *hclsyntax.ObjectConsExpr:
		if field == "OpenRange" {
			return t == "{", "{"
		}
	case *hclsyntax.ForExpr:
		if fr.role == roleDirectiveFor {
			// %{ for ... } ... %{ endfor }: the open and close ranges are the two directives
			if field == "OpenRange" || field == "CloseRange" {
				return strings.HasPrefix(t, "%{") && strings.HasSuffix(t, "}"), "%{ ... }"
			}
			return true, ""
		}
		switch field {
		case "OpenRange":
			if n.KeyExpr != nil {
				return t == "{", "{"
			}
			return t == "[", "["
		case "CloseRange":
			if n.KeyExpr != nil {
				return t == "}", "}"
			}
			return t == "]", "]"
		}
	case *hclsyntax.UnaryOpExpr:
		if field == "SymbolRange" {
			return oneOf("-", "!")
		}
	}
	return true, ""
}

// stepMeaning: a traversal step's range slices to the step.
func stepMeaning(step hcl.Traverser, text []byte) (ok bool, want string) {
	if hasComment(text) || !utf8.Valid(text) {
		// ill-formed UTF-8 is outside the specified input domain: what the scanner makes of such bytes
		// (it may take them, and a following blank, into an identifier) is not judged
		return true, ""
	}
	t, sw := string(text), stripWS(text)
	switch s := step.(type) {
	case hcl.TraverseRoot:
		return t == s.Name, s.Name
	case hcl.TraverseAttr:
		return sw == "."+s.Name, "." + s.Name
	case hcl.TraverseIndex:
		// [key] or the legacy .N
		if strings.HasPrefix(t, "[") {
			return strings.HasSuffix(t, "]") && len(t) >= 2, "[ ... ]"
		}
		return strings.HasPrefix(t, ".") && len(sw) >= 2, "[ ... ] or .N"
	}
	return true, ""
}

// wellFormed distinguishes the inverted range (End before Start) from one
// that merely leaves the buffer, then applies the position clauses.
func (si *srcInfo) wellFormed(r hcl.Range, what string) *engine.Outcome {
	if r.End.Byte < r.Start.Byte {
		return si.fail("c14.range."+what+".inverted", "%s range %v ends (byte %d) before it starts (byte %d)", what, r, r.End.Byte, r.Start.Byte)
	}
	return si.checkRange(r, what)
}

// checkNodeRanges applies the clauses above to every range-typed field of one node.
func (w *exprWalker) checkNodeRanges(node hclsyntax.Node, fr *frame) *engine.Outcome {
	si := w.si
	v := reflect.ValueOf(node)
	if v.Kind() == reflect.Ptr {
		if v.IsNil() {
			return nil
		}
		v = v.Elem()
	}
	if v.Kind() != reflect.Struct {
		return nil
	}
	kind := v.Type().Name()
	one := func(r hcl.Range, field string) *engine.Outcome {
		what := kind + "." + field
		nRangeFields.Add(1)
		if o := si.wellFormed(r, what); o != nil {
			return o
		}
		text, _ := si.slice(r)
		ok, want := fieldMeaning(node, field, fr, text)
		if want != "" || !ok {
			nRangeFieldMeanings.Add(1)
		}
		if !ok {
			return si.fail("c14.range."+what+".slice", "%s range %v slices the source to %q, want %s", what, r, text, want)
		}
		return nil
	}
	for i := 0; i < v.NumField(); i++ {
		f := v.Type().Field(i)
		if !f.IsExported() {
			continue
		}
		switch f.Type {
		case rangeType:
			if o := one(v.Field(i).Interface().(hcl.Range), f.Name); o != nil {
				return o
			}
		case rangesType:
			for _, r := range v.Field(i).Interface().([]hcl.Range) {
				if o := one(r, f.Name); o != nil {
					return o
				}
			}
		case traversalType:
			for _, step := range v.Field(i).Interface().(hcl.Traversal) {
				stepKind := strings.TrimPrefix(reflect.TypeOf(step).String(), "hcl.")
				what := kind + "." + f.Name + "." + stepKind
				r := step.SourceRange()
				nRangeFields.Add(1)
				if o := si.wellFormed(r, what); o != nil {
					return o
				}
				text, _ := si.slice(r)
				if ok, want := stepMeaning(step, text); !ok {
					return si.fail("c14.range."+what+".slice", "%s range %v slices the source to %q, want %s", what, r, text, want)
				}
			}
		}
	}
	if expr, isExpr := node.(hclsyntax.Expression); isExpr {
		if o := si.wellFormed(expr.StartRange(), kind+".StartRange"); o != nil {
			return o
		}
	}
	return nil
}
