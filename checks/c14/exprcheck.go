package main

import (
	"bytes"
	"fmt"
	"strings"

	"github.com/hashicorp/hcl/v2"
	"github.com/hashicorp/hcl/v2/hclsyntax"
	"github.com/zclconf/go-cty/cty"
	"github.com/zclconf/go-cty/cty/function"
	"github.com/zclconf/go-cty/cty/function/stdlib"

	"verif/engine"
	"verif/ref/refpos"
	"verif/vfmt"
)

// The fixed scope in which an expression node and the re-parse of its range
// are both evaluated.
var evalCtx = &hcl.EvalContext{
	Variables: map[string]cty.Value{
		"a": cty.StringVal("A"),
		"v": cty.StringVal("V"),
		"n": cty.NumberIntVal(7),
		"t": cty.True,
		"f": cty.False,
		"l": cty.TupleVal([]cty.Value{cty.StringVal("x"), cty.StringVal("y")}),
		"o": cty.ObjectVal(map[string]cty.Value{
			"a": cty.ObjectVal(map[string]cty.Value{"b": cty.StringVal("B")}),
			"c": cty.NumberIntVal(1),
		}),
		"l3": cty.TupleVal([]cty.Value{cty.TupleVal([]cty.Value{cty.StringVal("p")}), cty.TupleVal([]cty.Value{cty.StringVal("q")})}),
		"l2": cty.TupleVal([]cty.Value{
			cty.ObjectVal(map[string]cty.Value{"a": cty.TupleVal([]cty.Value{cty.StringVal("p")})}),
			cty.ObjectVal(map[string]cty.Value{"a": cty.TupleVal([]cty.Value{cty.StringVal("q")})}),
		}),
	},
	Functions: map[string]function.Function{
		"upper":  stdlib.UpperFunc,
		"concat": stdlib.ConcatFunc,
		"ns::id": function.New(&function.Spec{
			Params: []function.Parameter{{Name: "x", Type: cty.DynamicPseudoType, AllowNull: true, AllowUnknown: true, AllowDynamicType: true}},
			Type:   func(args []cty.Value) (cty.Type, error) { return args[0].Type(), nil },
			Impl:   func(args []cty.Value, _ cty.Type) (cty.Value, error) { return args[0], nil },
		}),
	},
}

// srcInfo is one parsed buffer together with its reference position index.
type srcInfo struct {
	src    []byte
	start  hcl.Pos
	ix     *refpos.Index
	colsOK bool   // every token boundary of the buffer is a well-defined cluster boundary
	posOK  bool   // no BOM
	entry  string // ParseConfig | ParseExpression | ParseTemplate
}

func newSrcInfo(src []byte, start hcl.Pos, entry string) *srcInfo {
	return newSrcInfoIx(src, start, entry, refpos.New(src, start.Line, start.Column))
}

func newSrcInfoIx(src []byte, start hcl.Pos, entry string, ix *refpos.Index) *srcInfo {
	si := &srcInfo{src: src, start: start, entry: entry}
	si.ix = ix
	// (a lone CR is an ordinary one-column cluster in the native syntax, see lex.go)
	si.posOK = !si.ix.LeadingBOM
	si.colsOK = si.posOK
	if si.colsOK {
		var toks hclsyntax.Tokens
		if entry == "ParseTemplate" {
			toks, _ = hclsyntax.LexTemplate(src, fname, start)
		} else {
			toks, _ = hclsyntax.LexConfig(src, fname, start)
		}
		for _, t := range toks {
			s, e := t.Range.Start.Byte-start.Byte, t.Range.End.Byte-start.Byte
			if s < 0 || e > len(src) || s > e || !si.ix.NativeColDefined(s) || !si.ix.NativeColDefined(e) {
				si.colsOK = false
				break
			}
		}
	}
	return si
}

func (si *srcInfo) fail(class, format string, a ...any) *engine.Outcome {
	o := engine.Fail(class, "%s(%q, start=%+v): %s", si.entry, si.src, si.start, fmt.Sprintf(format, a...))
	return &o
}

// slice returns the bytes a range covers, or ok=false when it does not lie
// within the buffer.
func (si *srcInfo) slice(r hcl.Range) ([]byte, bool) {
	s, e := r.Start.Byte-si.start.Byte, r.End.Byte-si.start.Byte
	if s < 0 || e < s || e > len(si.src) {
		return nil, false
	}
	return si.src[s:e], true
}

// checkRange: the range lies in the buffer and its line/column agree with
// the reference counter. what names the construct (used in the class).
func (si *srcInfo) checkRange(r hcl.Range, what string) *engine.Outcome {
	if _, ok := si.slice(r); !ok {
		return si.fail("c14.range."+what+".out-of-bounds", "%s range %v does not lie within the buffer of %d bytes starting at byte %d", what, r, len(si.src), si.start.Byte)
	}
	if r.Filename != fname {
		return si.fail("c14.range."+what+".filename", "%s range has filename %q", what, r.Filename)
	}
	nStructRanges.Add(1)
	if !si.posOK {
		return nil
	}
	for k, p := range []hcl.Pos{r.Start, r.End} {
		which := []string{"start", "end"}[k]
		off := p.Byte - si.start.Byte
		if si.ix.NativeLineDefined(off) && p.Line != si.ix.Line(off) {
			return si.fail("c14.range."+what+".line", "%s range %s: line %d at byte %d, counting newlines gives %d", what, which, p.Line, p.Byte, si.ix.Line(off))
		}
		if si.colsOK && si.ix.NativeColDefined(off) && p.Column != si.ix.Col(off) {
			return si.fail("c14.range."+what+".column", "%s range %s: column %d at byte %d, counting grapheme clusters gives %d", what, which, p.Column, p.Byte, si.ix.Col(off))
		}
	}
	return nil
}

// expectSlice: range is well-formed and slices to exactly want.
func (si *srcInfo) expectSlice(r hcl.Range, what string, want string) *engine.Outcome {
	if o := si.checkRange(r, what); o != nil {
		return o
	}
	got, _ := si.slice(r)
	if string(got) != want {
		return si.fail("c14.range."+what+".slice", "%s range %v slices the source to %q, want %q", what, r, got, want)
	}
	return nil
}

// checkBody checks every range recorded for the attributes and blocks of an
// error-free body, recursively, and every expression node.
func (si *srcInfo) checkBody(body *hclsyntax.Body, sig *strings.Builder) *engine.Outcome {
	if o := si.checkRange(body.SrcRange, "body"); o != nil {
		return o
	}
	for name, attr := range body.Attributes {
		if attr.Name != name {
			return si.fail("c14.range.attr-name.slice", "attribute stored under %q has Name %q", name, attr.Name)
		}
		if o := si.expectSlice(attr.NameRange, "attr-name", name); o != nil {
			return o
		}
		if o := si.expectSlice(attr.EqualsRange, "attr-equals", "="); o != nil {
			return o
		}
		if o := si.checkRange(attr.SrcRange, "attr"); o != nil {
			return o
		}
		er := attr.Expr.Range()
		if attr.SrcRange.Start != attr.NameRange.Start || attr.SrcRange.End != er.End {
			return si.fail("c14.range.attr.extent", "attribute %q: SrcRange %v does not span from its name %v to the end of its expression %v", name, attr.SrcRange, attr.NameRange, er)
		}
		if !(attr.NameRange.End.Byte <= attr.EqualsRange.Start.Byte && attr.EqualsRange.End.Byte <= er.Start.Byte) {
			return si.fail("c14.range.attr.order", "attribute %q: name %v, equals %v and expression %v are not in source order", name, attr.NameRange, attr.EqualsRange, er)
		}
		if o := si.checkExprTree(attr.Expr, false, sig); o != nil {
			return o
		}
	}
	for _, blk := range body.Blocks {
		if o := si.expectSlice(blk.TypeRange, "block-type", blk.Type); o != nil {
			return o
		}
		if len(blk.Labels) != len(blk.LabelRanges) {
			return si.fail("c14.range.block-label.count", "block %q has %d labels but %d label ranges", blk.Type, len(blk.Labels), len(blk.LabelRanges))
		}
		prevEnd := blk.TypeRange.End.Byte
		for i, lr := range blk.LabelRanges {
			if o := si.checkRange(lr, "block-label"); o != nil {
				return o
			}
			got, _ := si.slice(lr)
			if len(got) >= 2 && got[0] == '"' && got[len(got)-1] == '"' {
				// a quoted label: the text must denote the label (relation
				// between two executions: the label and the string literal)
				e, diags := hclsyntax.ParseExpression(got, fname, lr.Start)
				var v cty.Value
				if !diags.HasErrors() {
					v, diags = e.Value(nil)
				}
				if diags.HasErrors() || v.IsNull() || !v.IsKnown() || v.Type() != cty.String || v.AsString() != cty.StringVal(blk.Labels[i]).AsString() { // cty.StringVal normalises to NFC on both sides
					return si.fail("c14.range.block-label.slice", "block %q label %d is %q but its range %v slices the source to %q, which does not denote it", blk.Type, i, blk.Labels[i], lr, got)
				}
			} else if string(got) != blk.Labels[i] {
				return si.fail("c14.range.block-label.slice", "block %q label %d is %q but its range %v slices the source to %q", blk.Type, i, blk.Labels[i], lr, got)
			}
			if lr.Start.Byte < prevEnd {
				return si.fail("c14.range.block-label.order", "block %q label %d range %v overlaps what precedes it", blk.Type, i, lr)
			}
			prevEnd = lr.End.Byte
		}
		if o := si.expectSlice(blk.OpenBraceRange, "block-open-brace", "{"); o != nil {
			return o
		}
		if o := si.expectSlice(blk.CloseBraceRange, "block-close-brace", "}"); o != nil {
			return o
		}
		if blk.OpenBraceRange.Start.Byte < prevEnd || blk.CloseBraceRange.Start.Byte < blk.OpenBraceRange.End.Byte {
			return si.fail("c14.range.block.order", "block %q: header, open brace %v and close brace %v are not in source order", blk.Type, blk.OpenBraceRange, blk.CloseBraceRange)
		}
		def := blk.DefRange()
		lastHdr := blk.TypeRange
		if len(blk.LabelRanges) > 0 {
			lastHdr = blk.LabelRanges[len(blk.LabelRanges)-1]
		}
		if def.Start != blk.TypeRange.Start || def.End != lastHdr.End {
			return si.fail("c14.range.block-def.extent", "block %q: DefRange %v does not span from the type %v to the last header item %v", blk.Type, def, blk.TypeRange, lastHdr)
		}
		if o := si.checkRange(def, "block-def"); o != nil {
			return o
		}
		whole := blk.Range()
		if whole.Start != blk.TypeRange.Start || whole.End != blk.CloseBraceRange.End {
			return si.fail("c14.range.block.extent", "block %q: Range %v does not span from the type %v to the closing brace %v", blk.Type, whole, blk.TypeRange, blk.CloseBraceRange)
		}
		if blk.Body != nil {
			br := blk.Body.SrcRange
			if br.Start.Byte < blk.OpenBraceRange.Start.Byte || br.End.Byte > blk.CloseBraceRange.End.Byte {
				return si.fail("c14.range.body.extent", "block %q: body range %v is not within the braces %v .. %v", blk.Type, br, blk.OpenBraceRange, blk.CloseBraceRange)
			}
			if o := si.checkBody(blk.Body, sig); o != nil {
				return o
			}
		}
		sig.WriteString("B" + blk.Type + fmt.Sprint(len(blk.Labels)))
	}
	return nil
}

// ---- expression nodes ----

type role int

const (
	roleExpr         role = iota // an expression of the grammar
	roleTmplLiteral              // literal run inside a template
	roleTmplBody                 // template text that is not delimited by quotes/heredoc markers
	roleDirective                // %{if}..%{endif} / %{for}..%{endfor} as a template part
	roleDirectiveFor             // the ForExpr under a TemplateJoinExpr
	roleObjKey                   // object constructor key wrapper
	roleSynthetic                // AnonSymbolExpr, ChildScope
)

type frame struct {
	node   hclsyntax.Node
	role   role
	inEach bool // inside the per-element part of a splat expression
	tmpl   byte // kind of the innermost delimited template: 'q' quoted, 'h' heredoc, 'f' flush heredoc, 'b' bare (ParseTemplate root), 0 none
}

type exprWalker struct {
	si    *srcInfo
	stack []frame
	out   *engine.Outcome
	sig   *strings.Builder
}

func (w *exprWalker) parent() *frame {
	for i := len(w.stack) - 1; i >= 0; i-- {
		if _, isScope := w.stack[i].node.(hclsyntax.ChildScope); !isScope {
			return &w.stack[i]
		}
	}
	return nil
}

func (w *exprWalker) Enter(node hclsyntax.Node) hcl.Diagnostics {
	fr := frame{node: node, role: roleExpr}
	par := w.parent()
	if par != nil {
		fr.inEach, fr.tmpl = par.inEach, par.tmpl
	}
	if w.out != nil {
		w.stack = append(w.stack, fr)
		return nil
	}
	expr, isExpr := node.(hclsyntax.Expression)
	if _, isScope := node.(hclsyntax.ChildScope); isScope || !isExpr {
		fr.role = roleSynthetic
		w.stack = append(w.stack, fr)
		return nil
	}
	text, inBounds := w.si.slice(expr.Range())

	if par != nil {
		switch p := par.node.(type) {
		case *hclsyntax.SplatExpr:
			if node == hclsyntax.Node(p.Each) {
				fr.inEach = true
			}
		case *hclsyntax.TemplateExpr:
			if _, isLit := node.(*hclsyntax.LiteralValueExpr); isLit {
				fr.role = roleTmplLiteral
			}
			if _, isCond := node.(*hclsyntax.ConditionalExpr); isCond && bytes.HasPrefix(text, []byte("%{")) {
				fr.role = roleDirective
			}
		case *hclsyntax.ConditionalExpr:
			if par.role == roleDirective && (node == hclsyntax.Node(p.TrueResult) || node == hclsyntax.Node(p.FalseResult)) {
				fr.role = roleTmplBody
			}
		case *hclsyntax.TemplateJoinExpr:
			fr.role = roleDirectiveFor
		case *hclsyntax.ForExpr:
			if par.role == roleDirectiveFor && node == hclsyntax.Node(p.ValExpr) {
				fr.role = roleTmplBody
			}
		}
	} else if w.si.entry == "ParseTemplate" {
		// the root of a bare template is template text, not an expression
		switch node.(type) {
		case *hclsyntax.TemplateExpr, *hclsyntax.TemplateWrapExpr:
			fr.role = roleTmplBody
			fr.tmpl = 'b'
		}
	}
	switch node.(type) {
	case *hclsyntax.TemplateJoinExpr:
		fr.role = roleDirective
	case *hclsyntax.ObjectConsKeyExpr:
		fr.role = roleObjKey
	case *hclsyntax.AnonSymbolExpr:
		fr.role = roleSynthetic
	case *hclsyntax.TemplateExpr, *hclsyntax.TemplateWrapExpr:
		if fr.role == roleExpr {
			switch {
			case bytes.HasPrefix(text, []byte("<<-")):
				fr.tmpl = 'f'
			case bytes.HasPrefix(text, []byte("<<")):
				fr.tmpl = 'h'
			case bytes.HasPrefix(text, []byte(`"`)):
				fr.tmpl = 'q'
			}
		}
	}
	w.stack = append(w.stack, fr)
	// every range-typed field of every node, synthetic or not (ranges.go)
	if o := w.checkNodeRanges(node, &fr); o != nil {
		w.out = o
		return nil
	}
	if fr.role == roleSynthetic {
		return nil
	}
	nExprNodes.Add(1)
	kind := strings.TrimPrefix(fmt.Sprintf("%T", node), "*hclsyntax.")
	if !inBounds {
		w.out = w.si.fail("c14.range.expr.out-of-bounds", "%s range %v does not lie within the buffer", kind, expr.Range())
		return nil
	}
	if o := w.si.checkRange(expr.Range(), "expr"); o != nil {
		w.out = o
		return nil
	}
	// a child expression lies within its parent expression
	if par != nil && par.role != roleSynthetic {
		if pe, ok := par.node.(hclsyntax.Expression); ok {
			pr, r := pe.Range(), expr.Range()
			if _, isSplat := par.node.(*hclsyntax.SplatExpr); !isSplat && !fr.inEach && (r.Start.Byte < pr.Start.Byte || r.End.Byte > pr.End.Byte) {
				w.out = w.si.fail("c14.range.expr.outside-parent", "%s range %v is not within the range %v of its parent %T", kind, r, pr, par.node)
				return nil
			}
		}
	}
	sr := expr.StartRange()
	if !fr.inEach && (sr.Start.Byte < expr.Range().Start.Byte || sr.End.Byte > expr.Range().End.Byte) {
		if _, isSplat := node.(*hclsyntax.SplatExpr); !isSplat {
			w.out = w.si.fail("c14.range.expr.start-range", "%s StartRange %v is not within its Range %v", kind, sr, expr.Range())
			return nil
		}
	}
	w.sig.WriteString(kind[:2])

	switch fr.role {
	case roleObjKey:
		if hclsyntax.ValidIdentifier(string(text)) {
			v, diags := expr.Value(evalCtx)
			if diags.HasErrors() || !v.RawEquals(cty.StringVal(string(text))) {
				w.out = w.si.fail("c14.range.objkey.slice", "object key range %v slices the source to the bare name %q but the key evaluates to %s", expr.Range(), text, vfmt.V(v))
			}
		}
	case roleExpr:
		if fr.inEach {
			return nil
		}
		w.out = w.reparse(expr, kind, text, false)
	case roleDirective:
		// The text of a directive is template text: it is re-read as a
		// template. In a flush heredoc the parser has already removed
		// indentation from the literals (the text alone does not say how
		// much); inside a quoted template backslash escapes apply that a bare
		// template does not have. Both are left alone.
		if fr.tmpl == 'f' || fr.tmpl == 0 || (fr.tmpl == 'q' && bytes.IndexByte(text, '\\') >= 0) {
			return nil
		}
		w.out = w.reparse(expr, kind, text, true)
	}
	return nil
}

func (w *exprWalker) Exit(node hclsyntax.Node) hcl.Diagnostics {
	w.stack = w.stack[:len(w.stack)-1]
	return nil
}

func rootNames(e hclsyntax.Expression) string {
	var sb strings.Builder
	for _, t := range hclsyntax.Variables(e) {
		sb.WriteString(t.RootName())
		fmt.Fprintf(&sb, "/%d ", len(t))
	}
	return sb.String()
}

// reparse: the text of the node's range, read again on its own at the node's
// start position, must be accepted, cover the same range, have the same
// value in the fixed scope and refer to the same variables.
func (w *exprWalker) reparse(orig hclsyntax.Expression, kind string, text []byte, asTemplate bool) *engine.Outcome {
	si := w.si
	r := orig.Range()
	how := "ParseExpression"
	parse := hclsyntax.ParseExpression
	if asTemplate {
		how, parse = "ParseTemplate", hclsyntax.ParseTemplate
	}
	re, diags := parse(text, fname, r.Start)
	if diags.HasErrors() && !asTemplate {
		// hclsyntax/spec.md gives the heredoc template the production
		// "... Identifier Newline" while an attribute also ends in Newline; the
		// implementation lets the two share the newline and ends the
		// expression's range at the closing marker. An expression whose text
		// ends in a heredoc closing marker is therefore re-read with the shared
		// newline restored.
		withNL := append(append([]byte{}, text...), '\n')
		toks, _ := hclsyntax.LexExpression(withNL, fname, r.Start)
		if n := len(toks); n >= 3 && toks[n-3].Type == hclsyntax.TokenCHeredoc && toks[n-2].Type == hclsyntax.TokenNewline {
			re, diags = parse(withNL, fname, r.Start)
		}
	}
	if diags.HasErrors() {
		return si.fail("c14.range.expr.reparse-rejected."+kind, "%s range %v slices the source to %q, which %s rejects: %s", kind, r, text, how, diags.Error())
	}
	if !asTemplate {
		if rr := re.Range(); rr != r {
			return si.fail("c14.range.expr.reparse-range."+kind, "%s range %v slices the source to %q; re-parsed at the same start position that text has range %v", kind, r, text, rr)
		}
	}
	ov, od := orig.Value(evalCtx)
	rv, rd := re.Value(evalCtx)
	if od.HasErrors() != rd.HasErrors() {
		return si.fail("c14.range.expr.reparse-value."+kind, "%s range %v slices the source to %q; evaluation error=%v (%s) for the node but error=%v (%s) for the re-parsed text", kind, r, text, od.HasErrors(), od.Error(), rd.HasErrors(), rd.Error())
	}
	if !od.HasErrors() && !ov.RawEquals(rv) {
		return si.fail("c14.range.expr.reparse-value."+kind, "%s range %v slices the source to %q; the node evaluates to %s, the re-parsed text to %s", kind, r, text, vfmt.V(ov), vfmt.V(rv))
	}
	if a, b := rootNames(orig), rootNames(re); a != b {
		return si.fail("c14.range.expr.reparse-variables."+kind, "%s range %v slices the source to %q; the node refers to [%s], the re-parsed text to [%s]", kind, r, text, a, b)
	}
	nExprReparsed.Add(1)
	if !od.HasErrors() {
		w.sig.WriteString("=" + vfmt.V(ov))
	}
	return nil
}

// checkExprTree walks all expression nodes below root.
func (si *srcInfo) checkExprTree(root hclsyntax.Node, _ bool, sig *strings.Builder) *engine.Outcome {
	w := &exprWalker{si: si, sig: sig}
	hclsyntax.Walk(root, w)
	return w.out
}

// judgeParse: the three parser entry points over one buffer; only error-free
// parses are examined (the range-fidelity part of the property is stated for
// error-free configurations).
func judgeParse(d Data) engine.Outcome {
	return judgeParseWith(d, &ixCache{src: d.Src})
}

type parseEntry struct {
	name string
	run  func(src []byte, start hcl.Pos) (hclsyntax.Node, bool)
}

var parseEntries = []parseEntry{
	{"ParseConfig", func(src []byte, start hcl.Pos) (hclsyntax.Node, bool) {
		f, diags := hclsyntax.ParseConfig(src, fname, start)
		if diags.HasErrors() {
			return nil, false
		}
		return f.Body.(*hclsyntax.Body), true
	}},
	{"ParseExpression", func(src []byte, start hcl.Pos) (hclsyntax.Node, bool) {
		e, diags := hclsyntax.ParseExpression(src, fname, start)
		return e, !diags.HasErrors()
	}},
	{"ParseTemplate", func(src []byte, start hcl.Pos) (hclsyntax.Node, bool) {
		e, diags := hclsyntax.ParseTemplate(src, fname, start)
		return e, !diags.HasErrors()
	}},
}

func judgeParseWith(d Data, cache *ixCache) engine.Outcome {
	var sig strings.Builder
	src, n := d.Src, len(d.Src)
	for _, pe := range parseEntries {
		for sti, start := range lexStarts {
			node, ok := pe.run(src, start)
			if !ok {
				// whether a text is accepted does not depend on where it
				// starts; the second start position is tried for accepted texts
				break
			}
			nParseOK.Add(1)
			si := newSrcInfoIx(src, start, pe.name, cache.get(sti))
			sig.WriteString(pe.name[5:6])
			switch pe.name {
			case "ParseConfig":
				if o := si.checkBody(node.(*hclsyntax.Body), &sig); o != nil {
					return *o
				}
			case "ParseTemplate":
				// the template is the whole buffer (after a byte order mark,
				// which the scanner strips)
				r := node.Range()
				s0 := 0
				if si.ix.LeadingBOM {
					s0 = 3
				}
				if r.Start.Byte-start.Byte != s0 || r.End.Byte-start.Byte != n {
					return *si.fail("c14.range.template-root.extent", "the template is the whole buffer but the range of its expression is %v", r)
				}
				fallthrough
			default:
				if o := si.checkExprTree(node, false, &sig); o != nil {
					return *o
				}
			}
		}
	}
	return engine.Pass(sig.String())
}
