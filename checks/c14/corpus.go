package main

// editCorpus: small valid configurations; each is lexed/parsed as is and with
// every single-byte delete / insert / replace (by each alphabet byte, at
// every offset).
func editCorpus() []string {
	e := "é" + eacute // precomposed e-acute, then e + combining acute: two clusters, five bytes
	return []string{
		"a = 1\n",
		"a = \"s${v}t\"\n",
		"b \"l\" {\n  a = [1, 2]\n}\n",
		"b { a = 1 }\n",
		"b l {}\n",
		"a = <<EOT\nx ${v}\n  y\nEOT\n",
		"a = <<-EOT\n    x\n      y ${v}\n    EOT\nz = 2\n",
		"a = <<EOT\r\nx\r\nEOT\r\nb = 1\r\n",
		"a = \"%{if t}y%{else}n%{endif}\"\n",
		"a = \"%{ for x in l ~} ${x} %{ endfor ~}\"\n",
		"a = \"${\"n${n}\"}\"\n",
		"a = \"$${v} %%{x} \\\" \\\\\"\n",
		"# c " + e + "\na = 1 // d\n/* m\n m */ b = 2\n",
		"a = 1\r\nb {\r\n  c = 2\r\n}\r\n",
		e + " = \"" + e + "\" # " + e + "\n",
		"a = {\n  k = v\n  \"q\" = [for x in l : x if x != \"x\"]\n}\n",
		"a = l2[*].a[0] ? o.a.b : upper(v)\n",
		"a = (\n  1 +\n  2\n)\n",
		"\ta\t=\t-n * 2 % 3\n",
		"a = <<EOT\n%{ if t ~}\ny\n%{ endif ~}\nEOT\n",
		"a = [<<A\n${v}\nA\n, <<-B\n  b\n  B\n]\n",
		"b \"x\" \"" + e + "\" { c { d = {} } }\n",
		// closing heredoc marker followed by blanks other than ASCII space/tab
		"a = <<EOT\nx\nEOT\u00a0\nb = 1\n",
		"a = <<EOT\nx\nEOT \t\nb = 1\n",
		"a = <<EOT\nx\nEOT\f\nb = 1\n",
		"a = <<-EOT\n  x\n  EOT\u3000 \nb = 1\n",
		// flush heredocs indented with multi-byte white space, tabs, and mixed
		"a = <<-EOT\n\u00a0\u00a0x\n\u00a0\u00a0\u00a0y ${v}\n\u00a0\u00a0EOT\nz = 2\n",
		"a = <<-EOT\n\u3000x ${v}\n\u3000\u3000y\n\u3000EOT\n",
		"a = <<-EOT\n\t\tx\n\t\t\ty\n\t\tEOT\n",
		"a = <<-EOT\n  ${v} x\n    y\n  EOT\n",
		// a carriage return that is not part of CRLF (one column, no newline) in
		// every token kind that can hold one, with content after it on the line
		"a = [1, /* c\rd */ 2] # e\rf\n",
		"a = 1 \r b = \"s\rt${v}u\" // g\rh\n",
		"a = <<EOT\nx\ry ${v} z\r\nw %{ if t }\rq%{ endif } r\nEOT\n",
		"a = \"${v /*\r*/ }x\" /* i */ b = 2\n",
		// attribute-only (legacy) splats with zero, one, two and three steps after the star
		"a = [l2.*, l2.*.a, l2.*.a.0, o.a.*.b.0.c]\n",
		"a = l2 . * . a . 0\n",
	}
}
