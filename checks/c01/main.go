// C01 — Expression evaluation conforms to the language specification.
//
// Bounded exhaustive exploration: every AST of the families of verif/gen/fam
// over the typed atom pool, rendered in its canonical layout and in every
// layout with <= k deviations, is parsed and evaluated by the real
// implementation and compared with the reference interpreter refeval.
package main

import (
	"fmt"
	"sort"
	"strings"
	"time"

	"github.com/hashicorp/hcl/v2"
	"github.com/hashicorp/hcl/v2/hclsyntax"
	"github.com/zclconf/go-cty/cty"
	"github.com/zclconf/go-cty/cty/function"

	"verif/engine"
	ex "verif/gen/expr"
	"verif/gen/fam"
	"verif/gen/pool"
	"verif/ref/refeval"
	"verif/vfmt"
)

type Data struct {
	Family string `json:"family"`
	E      *ex.E  `json:"e"`
	Src    string `json:"src"` // informational: canonical rendering
	K      int    `json:"k"`   // layout deviation bound
}

var counters engine.Counter

func gen(tier string, emit func(engine.Case) bool) {
	fam.All(fam.Opts{Thorough: tier == "thorough"}, func(family, id string, e *ex.E) bool {
		k := 1
		// thorough: every pair of layout deviations for the smaller ASTs
		if tier == "thorough" && len(ex.Tokens(e)) <= 12 {
			k = 2
		}
		return emit(engine.Case{ID: id, Data: Data{Family: family, E: e, Src: ex.Canon(e), K: k}})
	})
}

var ctx = &hcl.EvalContext{Variables: pool.Vars, Functions: pool.ImplFuncs()}

// chainCtx offers the same scope through a chain of contexts: the root holds the functions and
// every second variable, its child the other variables and an empty (non-nil) function table, the
// leaf nothing at all. spec: names not found in a context are looked up in its parent.
var chainCtx = func() *hcl.EvalContext {
	root := &hcl.EvalContext{Variables: map[string]cty.Value{}, Functions: pool.ImplFuncs()}
	mid := root.NewChild()
	mid.Variables, mid.Functions = map[string]cty.Value{}, map[string]function.Function{}
	var names []string
	for n := range pool.Vars {
		names = append(names, n)
	}
	sort.Strings(names)
	for i, n := range names {
		if i%2 == 0 {
			root.Variables[n] = pool.Vars[n]
		} else {
			mid.Variables[n] = pool.Vars[n]
		}
	}
	return mid.NewChild()
}()
var scope = pool.RefScope()

func slug(s string) string {
	s = strings.ToLower(s)
	var sb strings.Builder
	for _, c := range s {
		if (c >= 'a' && c <= 'z') || (c >= '0' && c <= '9') {
			sb.WriteRune(c)
		} else {
			sb.WriteByte('-')
		}
	}
	return strings.Trim(sb.String(), "-")
}

func kindOf(e *ex.E) string {
	switch e.K {
	case "bin", "un":
		return e.K + "(" + e.S + ")"
	case "tmpl":
		return "tmpl-" + e.Form
	case "splat":
		if e.Full {
			return "fullsplat"
		}
		return "attrsplat"
	case "for":
		if e.Obj {
			return "forobj"
		}
		return "fortuple"
	}
	return e.K
}

// tupleize replaces every list by a tuple, deeply (for results whose
// sequence kind the specification leaves open).
func tupleize(v cty.Value) cty.Value {
	if v.IsNull() || !v.IsKnown() {
		return v
	}
	ty := v.Type()
	switch {
	case ty.IsListType() || ty.IsTupleType():
		var out []cty.Value
		for it := v.ElementIterator(); it.Next(); {
			_, ev := it.Element()
			out = append(out, tupleize(ev))
		}
		if len(out) == 0 {
			return cty.EmptyTupleVal
		}
		return cty.TupleVal(out)
	case ty.IsObjectType():
		m := map[string]cty.Value{}
		for k, ev := range v.AsValueMap() {
			m[k] = tupleize(ev)
		}
		return cty.ObjectVal(m)
	}
	return v
}

type obs struct {
	reeval string
	chain  string
	src    string
	perr   bool
	err    bool
	v      cty.Value
	msg    string
}

func evalSrc(src string, bare bool) (o obs) {
	o.src = src
	var expr hclsyntax.Expression
	var diags hcl.Diagnostics
	if bare {
		expr, diags = hclsyntax.ParseTemplate([]byte(src), "t.hcl", hcl.InitialPos)
	} else {
		expr, diags = hclsyntax.ParseExpression([]byte(src), "t.hcl", hcl.InitialPos)
	}
	if diags.HasErrors() {
		o.perr = true
		o.msg = diags.Error()
		return
	}
	v, vd := expr.Value(ctx)
	o.v = v
	if vd.HasErrors() {
		o.err = true
		o.msg = vd.Error()
	}
	// evaluating must not change the syntax tree: a second evaluation of the
	// same parsed expression gives the same outcome
	v2, vd2 := expr.Value(ctx)
	if vd2.HasErrors() != o.err || (!o.err && !v2.RawEquals(v)) {
		o.reeval = fmt.Sprintf("first evaluation: err=%v %s; second evaluation of the same parsed expression: err=%v %s %s", o.err, vfmt.V(v), vd2.HasErrors(), vfmt.V(v2), vd2.Error())
	}
	// the same scope offered through a chain of contexts gives the same outcome
	v3, vd3 := expr.Value(chainCtx)
	if vd3.HasErrors() != o.err || (!o.err && !v3.RawEquals(v)) {
		o.chain = fmt.Sprintf("flat scope: err=%v %s; scope split over a chain of three contexts: err=%v %s %s", o.err, vfmt.V(v), vd3.HasErrors(), vfmt.V(v3), vd3.Error())
	}
	return
}

func evalAttr(src string) (o obs) {
	o.src = "x = " + src + "\n"
	f, diags := hclsyntax.ParseConfig([]byte(o.src), "t.hcl", hcl.InitialPos)
	if diags.HasErrors() {
		o.perr = true
		o.msg = diags.Error()
		return
	}
	attrs, d := f.Body.JustAttributes()
	if d.HasErrors() || attrs["x"] == nil {
		o.perr = true
		o.msg = "JustAttributes: " + d.Error()
		return
	}
	v, vd := attrs["x"].Expr.Value(ctx)
	o.v = v
	if vd.HasErrors() {
		o.err = true
		o.msg = vd.Error()
	}
	return
}

func renderings(e *ex.E, k int) []string {
	toks := ex.Tokens(e)
	out := []string{ex.Join(toks, nil)}
	devs := ex.Deviations(toks)
	for _, d := range devs {
		out = append(out, ex.Join(toks, []ex.Dev{d}))
	}
	if k >= 2 {
		for i, d1 := range devs {
			for _, d2 := range devs[i+1:] {
				if d1.I != d2.I {
					out = append(out, ex.Join(toks, []ex.Dev{d1, d2}))
				}
			}
		}
	}
	// redundant parentheses around each sub-expression and around the whole
	c := e.Clone()
	var wrap func(n *ex.E)
	wrap = func(n *ex.E) {
		for _, slot := range n.Children() {
			orig := *slot
			*slot = ex.Paren(orig)
			out = append(out, ex.Canon(c))
			*slot = orig
			wrap(orig)
		}
	}
	wrap(c)
	if !(e.K == "tmpl" && e.Form == "b") {
		out = append(out, ex.Canon(ex.Paren(e)))
	}
	// CRLF for every structural newline (heredoc marker lines, newline-separated objects)
	if crlf := ex.JoinCRLF(toks); crlf != out[0] {
		out = append(out, crlf)
	}
	return out
}

func judge(c engine.Case) engine.Outcome {
	d := c.Data.(Data)
	out := judgeExpr(d, d.E)
	if out.V == engine.Viol {
		// Localise: name the deepest closed sub-expression that fails by
		// itself, so that one defect has one class wherever it is nested.
		cur := d.E
		for {
			found := false
			for _, slot := range cur.Children() {
				sub := *slot
				if refeval.HasFree(sub, scope) {
					continue
				}
				if o2 := judgeExpr(d, sub); o2.V == engine.Viol {
					out.Class = o2.Class
					cur, found = sub, true
					break
				}
			}
			if !found {
				break
			}
		}
	}
	return out
}

func judgeExpr(d Data, e *ex.E) engine.Outcome {
	want := refeval.Eval(e, scope)
	bare := e.K == "tmpl" && e.Form == "b"
	kind := kindOf(e)
	rs := renderings(e, d.K)
	var first *obs
	n := 0
	check := func(o obs) *engine.Outcome {
		n++
		if o.perr {
			out := engine.Fail("c01."+kind+".parse-error", "valid %s expression does not parse:\n  source: %q\n  %s", d.Family, o.src, o.msg)
			return &out
		}
		if o.reeval != "" {
			out := engine.Fail("c01."+kind+".re-evaluation-differs", "evaluating the same parsed expression twice gives different outcomes:\n  source: %q\n  %s", o.src, o.reeval)
			return &out
		}
		if o.chain != "" {
			out := engine.Fail("c01."+kind+".scope-chain-differs", "evaluating in a chain of contexts differs from evaluating in one context holding the same names:\n  source: %q\n  %s", o.src, o.chain)
			return &out
		}
		if first == nil {
			first = &o
		} else {
			same := first.err == o.err
			if same && !o.err {
				same = first.v.RawEquals(o.v)
			}
			if !same {
				out := engine.Fail("c01."+kind+".layout-dependence", "two layouts of the same expression evaluate differently:\n  %q -> err=%v %s\n  %q -> err=%v %s", first.src, first.err, vfmt.V(first.v), o.src, o.err, vfmt.V(o.v))
				return &out
			}
		}
		if want.U {
			return nil
		}
		if want.Err {
			if !o.err {
				out := engine.Fail("c01.missing-error."+slug(want.Why), "the specification makes this expression erroneous (%s) but it evaluates without error:\n  source: %q\n  value: %s", want.Why, o.src, vfmt.V(o.v))
				return &out
			}
			return nil
		}
		if o.err {
			out := engine.Fail("c01."+kind+".spurious-error", "the specification assigns a value but evaluation fails:\n  source: %q\n  want: %s\n  error: %s", o.src, vfmt.V(want.V), o.msg)
			return &out
		}
		got, w := o.v, want.V
		if want.Amb {
			if gt := got.Type(); want.EmptyElem != cty.NilType && (gt.IsListType() || gt.IsSetType()) && !gt.ElementType().Equals(want.EmptyElem) {
				out := engine.Fail("c01."+kind+".empty-result-element-type", "the result is an empty %s although applying the per-element steps to the source's element type gives %s:\n  source: %q", gt.FriendlyName(), want.EmptyElem.FriendlyName(), o.src)
				return &out
			}
			got, w = tupleize(got), tupleize(w)
		}
		if !got.RawEquals(w) {
			out := engine.Fail("c01."+kind+".value-mismatch", "value differs from the specification:\n  source: %q\n  want: %s\n  got:  %s", o.src, vfmt.V(want.V), vfmt.V(o.v))
			return &out
		}
		return nil
	}
	for _, src := range rs {
		if out := check(evalSrc(src, bare)); out != nil {
			return *out
		}
	}
	if !bare && !strings.Contains(rs[0], "\n") || (!bare && e.K == "tmpl") {
		if out := check(evalAttr(rs[0])); out != nil {
			return *out
		}
	}
	counters.Add("renderings", int64(n))
	if want.U {
		counters.Add("unspecified:"+want.Why, 1)
		return engine.Skip()
	}
	if want.Err {
		return engine.Pass("E:" + kind + ":" + want.Why)
	}
	return engine.Pass(kind + ":" + vfmt.V(want.V))
}

func shrink(c engine.Case) []engine.Case {
	d := c.Data.(Data)
	var out []engine.Case
	// replace the root by each child; replace each child slot by a simple atom
	for _, slot := range d.E.Children() {
		out = append(out, engine.Case{ID: c.ID + "^", Data: Data{Family: d.Family, E: (*slot).Clone(), Src: ex.Canon(*slot), K: d.K}})
	}
	cl := d.E.Clone()
	for _, slot := range cl.Children() {
		orig := *slot
		if orig.K == "num" || orig.K == "kw" || orig.K == "var" {
			continue
		}
		for _, a := range []*ex.E{ex.Num("1"), ex.Var("sa"), ex.Var("ln")} {
			*slot = a
			cp := cl.Clone()
			out = append(out, engine.Case{ID: c.ID + "~", Data: Data{Family: d.Family, E: cp, Src: ex.Canon(cp), K: d.K}})
		}
		*slot = orig
	}
	return out
}

func main() {
	engine.Main(&engine.Check{
		ID:        "C01",
		Title:     "Expression evaluation conforms to the language specification",
		Technique: "bounded exhaustive enumeration of expression/template ASTs x layouts on the real parser+evaluator, compared with a reference interpreter written from the specification",
		Rule: "ASTs: families F1 unary x atom, F2 binary x atom^2, F3 conditional x 7 predicates x atom^2, F4 all ordered operator pairs in both groupings x operand triples (+ unary/conditional positions), F5 index/attr/legacy-index x collections x keys, F6 both splats x all atoms x trailing traversals, F7 for-expression forms x all atoms, F8 calls (6-function table, 0-3 args, expansion), F9 constructors (key kinds, separators), F10 all template part sequences <= 3 in quoted/heredoc/flush/bare forms, F11 two-level cross-construct nesting; atom pool = 12 literals + 30 variables of every cty kind. " +
			"Each AST is rendered canonically, with every single layout deviation (space/no space/tab/inline comment/newline/CRLF/line comments at every gap where the spec admits it), with redundant parentheses around every sub-expression, with CRLF line endings, and as an attribute value. Oracle: reference interpreter refeval (value incl. type, Err, or Unspecified) + all renderings agree. Non-trivial = specified outcome; distinct = distinct (root construct, expected value or error reason).",
		Assumptions: []string{"go-cty (values, conversion, unification, arithmetic) is the trusted base of the reference interpreter", "spec-silent behaviours listed in DESIGN.md 3.2 are Unspecified and accepted"},
		Gen:         gen,
		Judge:       judge,
		Load:        engine.LoadAs[Data],
		Shrink:      shrink,
		Extra: func() map[string]any {
			m := map[string]any{}
			un := map[string]int64{}
			for k, v := range counters.Snapshot() {
				if strings.HasPrefix(k, "unspecified:") {
					un[strings.TrimPrefix(k, "unspecified:")] = v
				} else {
					m[k] = v
				}
			}
			m["unspecified_by_reason"] = un
			m["layout_deviation_bound"] = "1 (quick); 2 for ASTs of <= 12 tokens in the thorough tier"
			return m
		},
		QuickBudget:    5 * time.Minute,
		ThoroughBudget: 45 * time.Minute,
	})
	_ = fmt.Sprint
}
