// C08 — Decoding always yields a value of the specification's implied type.
//
// Bounded exhaustive exploration of (hcldec spec tree, body) pairs: every spec
// tree up to a depth over every spec kind (within the documented
// preconditions), each with every conforming body of a bounded family and
// every body within k edits of three base bodies. Every pair is decoded with
// the real hcldec.Decode / PartialDecode and judged against (1) totality,
// (2) conformance of the value's type to hcldec.ImpliedType(spec) and (3) the
// reference decoder verif/ref/refdec working on the abstract body.
package main

import (
	"fmt"
	"regexp"
	"runtime/debug"
	"strings"
	"time"

	"github.com/hashicorp/hcl/v2"
	"github.com/hashicorp/hcl/v2/hcldec"
	"github.com/hashicorp/hcl/v2/hclsyntax"
	"github.com/zclconf/go-cty/cty"

	"verif/engine"
	sg "verif/gen/specgen"
	"verif/ref/refdec"
	"verif/vfmt"
)

type Data struct {
	Spec     *sg.Spec `json:"spec"`
	Body     *sg.Body `json:"body"`
	SpecText string   `json:"spec_text"` // informational
	Text     string   `json:"text"`      // informational: native rendering of Body
	Tag      string   `json:"tag"`
}

var counters engine.Counter

func gen(tier string, emit func(engine.Case) bool) {
	k, maxConf := 1, 300
	if tier == "thorough" {
		k, maxConf = 2, 2000
	}
	stop := false
	nspec := 0
	pass := func(k int, onlyPert2 bool) {
		sg.Enumerate(tier, func(s *sg.Spec) bool {
			nspec++
			st := s.String()
			counters.Add("specs_depth_"+fmt.Sprint(s.Depth()), 1)
			maxLabels := 0
			s.Walk(func(x *sg.Spec) {
				if len(x.Labels) > maxLabels {
					maxLabels = len(x.Labels)
				}
			})
			if maxLabels >= 2 {
				counters.Add("specs_with_label_depth_"+fmt.Sprint(maxLabels), 1)
			}
			sg.Bodies(s, k, maxConf, func(b *sg.Body, tag string) bool {
				if onlyPert2 && tag != "pert2" {
					return true
				}
				id := st + " | " + b.Key()
				if !emit(engine.Case{ID: id, Data: Data{Spec: s, Body: b, SpecText: st, Text: b.Native(), Tag: tag}}) {
					stop = true
					return false
				}
				return true
			})
			return !stop
		})
	}
	// all specs with <= 1 edit first; in the thorough tier the 2-edit bodies follow
	pass(1, false)
	if k == 2 && !stop {
		pass(2, true)
	}
}

// guard runs f and converts a panic into (stack, message).
func guard(f func()) (panicked bool, msg, stack string) {
	defer func() {
		if r := recover(); r != nil {
			panicked, msg, stack = true, fmt.Sprint(r), string(debug.Stack())
		}
	}()
	f()
	return
}

var frameRe = regexp.MustCompile(`hcldec\.\(?\*?(\w+)\)?\.(\w+)`)

// panicClass names the hcldec spec method in which the panic was raised.
func panicClass(d Data, fn, stack string) string {
	where := "unknown"
	for _, l := range strings.Split(stack, "\n") {
		if m := frameRe.FindStringSubmatch(l); m != nil && strings.HasSuffix(m[1], "Spec") {
			where = m[1] + "." + m[2]
			break
		}
	}
	return "c08.panic." + fn + "." + where
}

func trimStack(s string) string {
	var keep []string
	for _, l := range strings.Split(s, "\n") {
		if strings.Contains(l, "hashicorp/hcl") || strings.Contains(l, "/repo/") || strings.Contains(l, "go-cty") {
			keep = append(keep, strings.TrimSpace(l))
			if len(keep) >= 10 {
				break
			}
		}
	}
	return strings.Join(keep, "\n")
}

func noOpt(t cty.Type) cty.Type { return t.WithoutOptionalAttributesDeep() }

func kindOf(t cty.Type) string {
	switch {
	case t == cty.DynamicPseudoType:
		return "dynamic"
	case t == cty.String:
		return "string"
	case t == cty.Number:
		return "number"
	case t == cty.Bool:
		return "bool"
	case t.IsListType():
		return "list"
	case t.IsSetType():
		return "set"
	case t.IsMapType():
		return "map"
	case t.IsObjectType():
		return "object"
	case t.IsTupleType():
		return "tuple"
	}
	return "other"
}

// shapeDiff describes where two types first differ: the chain of equal
// collection kinds followed by the two differing kinds.
func shapeDiff(got, want cty.Type) string {
	if got.Equals(want) {
		return "equal"
	}
	if noOpt(got).Equals(noOpt(want)) {
		return "optional-attrs-kept"
	}
	gk, wk := kindOf(got), kindOf(want)
	if gk != wk {
		// the kind that was wanted, and whether a wholly dynamic type came instead
		if gk == "dynamic" {
			return "want-" + wk + ".got-dynamic"
		}
		return "want-" + wk + ".got-other-kind"
	}
	switch gk {
	case "list", "set", "map":
		return "element." + strings.TrimPrefix(shapeDiff(got.ElementType(), want.ElementType()), "element.")
	case "object":
		ga, wa := got.AttributeTypes(), want.AttributeTypes()
		if len(ga) != len(wa) {
			return "object-attribute-sets-differ"
		}
		for _, k := range sortedKeys(wa) {
			gt, ok := ga[k]
			if !ok {
				return "object-attribute-sets-differ"
			}
			if !conforms(gt, wa[k]) {
				return "object-attr." + shapeDiff(gt, wa[k])
			}
		}
	case "tuple":
		ge, we := got.TupleElementTypes(), want.TupleElementTypes()
		if len(ge) != len(we) {
			return "tuple-lengths-differ"
		}
		for i := range we {
			if !conforms(ge[i], we[i]) {
				return "tuple-elem." + shapeDiff(ge[i], we[i])
			}
		}
	}
	return "differ"
}

func sortedKeys[V any](m map[string]V) []string {
	ks := make([]string, 0, len(m))
	for k := range m {
		ks = append(ks, k)
	}
	for i := 1; i < len(ks); i++ {
		for j := i; j > 0 && ks[j] < ks[j-1]; j-- {
			ks[j], ks[j-1] = ks[j-1], ks[j]
		}
	}
	return ks
}

// conforms: the property's type relation. got conforms to want when
// TestConformance finds nothing (the dynamic pseudo-type in want accepts any
// type) - which for a want without dynamic parts is exact equality.
func conforms(got, want cty.Type) bool {
	if len(got.TestConformance(want)) != 0 {
		return false
	}
	if !want.HasDynamicTypes() && !got.Equals(want) {
		return false
	}
	return true
}

// loc is the spec node a type or value discrepancy is attributed to.
type loc struct {
	s       *sg.Spec
	nblocks int
	got     cty.Type
	want    cty.Type
	gotV    cty.Value
	wantV   cty.Value
}

// wellLabelled: the bodies of the blocks of the type of the block spec s that
// carry the number of labels the spec demands.
func wellLabelled(bodies []*sg.Body, s *sg.Spec) []*sg.Body {
	var out []*sg.Body
	for _, bl := range wellLabelledBlocks(bodies, s) {
		out = append(out, bl.Body)
	}
	return out
}

func wellLabelledBlocks(bodies []*sg.Body, s *sg.Spec) []sg.Block {
	n := 0
	if s.K != sg.KAttrs {
		n = len(s.Labels) + s.Kids[0].LabelCount()
	}
	var out []sg.Block
	for _, b := range bodies {
		if b == nil {
			continue
		}
		for _, bl := range b.Blocks {
			if bl.Type == s.Name && len(bl.Labels) == n {
				out = append(out, bl)
			}
		}
	}
	return out
}

// locate finds the deepest spec node whose part of the value's type does not
// conform to its part of the wanted type (nil if everything conforms).
func locate(s *sg.Spec, bodies []*sg.Body, got, want cty.Type) *loc {
	if conforms(got, want) {
		return nil
	}
	here := &loc{s: s, got: got, want: want}
	if s.IsBlockish() {
		here.nblocks = len(wellLabelled(bodies, s))
		if here.nblocks == 0 {
			// no block contributed: the discrepancy is the block spec's own
			return here
		}
	}
	try := func(k *sg.Spec, bs []*sg.Body, g, w cty.Type) *loc {
		if l := locate(k, bs, g, w); l != nil {
			return l
		}
		return nil
	}
	switch s.K {
	case sg.KObject:
		if got.IsObjectType() && want.IsObjectType() {
			for i, k := range s.Kids {
				if got.HasAttribute(s.Keys[i]) && want.HasAttribute(s.Keys[i]) {
					if l := try(k, bodies, got.AttributeType(s.Keys[i]), want.AttributeType(s.Keys[i])); l != nil {
						return l
					}
				}
			}
		}
	case sg.KTuple:
		if got.IsTupleType() && want.IsTupleType() && got.Length() == want.Length() && got.Length() == len(s.Kids) {
			for i, k := range s.Kids {
				if l := try(k, bodies, got.TupleElementType(i), want.TupleElementType(i)); l != nil {
					return l
				}
			}
		}
	case sg.KBlock:
		// (only the first block is decoded)
		if l := try(s.Kids[0], wellLabelled(bodies, s)[:1], got, want); l != nil {
			return l
		}
	case sg.KList, sg.KSet:
		if (got.IsListType() && want.IsListType()) || (got.IsSetType() && want.IsSetType()) {
			if l := try(s.Kids[0], wellLabelled(bodies, s), got.ElementType(), want.ElementType()); l != nil {
				return l
			}
		}
	case sg.KMap:
		g, w := got, want
		ok := true
		for range s.Labels {
			if !(g.IsMapType() && w.IsMapType()) {
				ok = false
				break
			}
			g, w = g.ElementType(), w.ElementType()
		}
		if ok {
			if l := try(s.Kids[0], wellLabelled(bodies, s), g, w); l != nil {
				return l
			}
		}
	case sg.KDefault, sg.KRefine, sg.KValidate:
		for _, k := range s.Kids {
			if l := try(k, bodies, got, want); l != nil {
				return l
			}
		}
	case sg.KTExpr, sg.KTFunc:
		if s.Fn == "wrap" && got.IsTupleType() && want.IsTupleType() && got.Length() == 1 && want.Length() == 1 {
			if l := try(s.Kids[0], bodies, got.TupleElementType(0), want.TupleElementType(0)); l != nil {
				return l
			}
		}
	}
	return here
}

func nodeName(s *sg.Spec) string {
	n := s.K
	switch s.K {
	case sg.KMap, sg.KBObject:
		n += fmt.Sprintf(".labels%d", len(s.Labels))
	case sg.KAttrs:
		n += ".elem-" + kindOf(sg.Ty(s.Ty))
	case sg.KAttr:
		n += "." + kindOf(sg.Ty(s.Ty))
	case sg.KTExpr, sg.KTFunc, sg.KRefine, sg.KValidate:
		n += "-" + s.Fn
	}
	return n
}

func typeClass(l *loc) string {
	c := "c08.type." + nodeName(l.s)
	if l.s.IsBlockish() {
		switch l.nblocks {
		case 0:
			c += ".no-blocks"
		default:
			c += ".some-blocks"
		}
	}
	c += "." + shapeDiff(l.got, l.want)
	return c
}

// locateVal: the deepest spec node at which the decoded value differs from
// the reference value (nil if they are equal).
func locateVal(s *sg.Spec, bodies []*sg.Body, got, want cty.Value) *loc {
	if got.RawEquals(want) {
		return nil
	}
	here := &loc{s: s, got: got.Type(), want: want.Type(), gotV: got, wantV: want}
	if s.IsBlockish() {
		here.nblocks = len(wellLabelled(bodies, s))
		if here.nblocks == 0 {
			return here
		}
	}
	plain := func(v cty.Value) bool { return v.IsKnown() && !v.IsNull() }
	if !plain(got) || !plain(want) {
		switch s.K {
		case sg.KDefault, sg.KRefine, sg.KValidate:
		default:
			return here
		}
	}
	gt, wt := got.Type(), want.Type()
	switch s.K {
	case sg.KObject:
		if gt.IsObjectType() && wt.IsObjectType() {
			for i, k := range s.Kids {
				if gt.HasAttribute(s.Keys[i]) && wt.HasAttribute(s.Keys[i]) {
					if l := locateVal(k, bodies, got.GetAttr(s.Keys[i]), want.GetAttr(s.Keys[i])); l != nil {
						return l
					}
				}
			}
		}
	case sg.KTuple:
		if gt.IsTupleType() && wt.IsTupleType() && got.LengthInt() == len(s.Kids) && want.LengthInt() == len(s.Kids) {
			for i, k := range s.Kids {
				idx := cty.NumberIntVal(int64(i))
				if l := locateVal(k, bodies, got.Index(idx), want.Index(idx)); l != nil {
					return l
				}
			}
		}
	case sg.KBlock:
		if l := locateVal(s.Kids[0], wellLabelled(bodies, s)[:1], got, want); l != nil {
			return l
		}
	case sg.KList, sg.KBTuple:
		seq := func(t cty.Type) bool { return t.IsListType() || t.IsTupleType() }
		nb := wellLabelled(bodies, s)
		if seq(gt) && seq(wt) && got.LengthInt() == want.LengthInt() && got.LengthInt() == len(nb) {
			for i := 0; i < got.LengthInt(); i++ {
				idx := cty.NumberIntVal(int64(i))
				if l := locateVal(s.Kids[0], nb[i:i+1], got.Index(idx), want.Index(idx)); l != nil {
					return l
				}
			}
		}
	case sg.KSet:
		nb := wellLabelled(bodies, s)
		if gt.IsSetType() && wt.IsSetType() && got.LengthInt() == 1 && want.LengthInt() == 1 && len(nb) == 1 {
			if l := locateVal(s.Kids[0], nb, got.AsValueSlice()[0], want.AsValueSlice()[0]); l != nil {
				return l
			}
		}
	case sg.KMap, sg.KBObject:
		// descend through the label levels while the key sets agree
		var down func(g, w cty.Value, depth int, path []string) *loc
		down = func(g, w cty.Value, depth int, path []string) *loc {
			if g.RawEquals(w) {
				return nil
			}
			if depth == 0 {
				// the first block carrying these labels
				var nb []*sg.Body
				for _, bl := range wellLabelledBlocks(bodies, s) {
					same := true
					for i, l := range path {
						same = same && bl.Labels[i] == l
					}
					if same {
						nb = append(nb, bl.Body)
						break
					}
				}
				return locateVal(s.Kids[0], nb, g, w)
			}
			coll := func(v cty.Value) bool {
				return plain(v) && (v.Type().IsMapType() || v.Type().IsObjectType())
			}
			if !coll(g) || !coll(w) {
				return here
			}
			gm, wm := g.AsValueMap(), w.AsValueMap()
			if len(gm) != len(wm) {
				return here
			}
			for _, k := range sortedKeys(wm) {
				gv, ok := gm[k]
				if !ok {
					return here
				}
				if l := down(gv, wm[k], depth-1, append(path[:len(path):len(path)], k)); l != nil {
					return l
				}
			}
			return here
		}
		if l := down(got, want, len(s.Labels), nil); l != nil {
			return l
		}
	case sg.KDefault, sg.KRefine, sg.KValidate:
		if l := locateVal(s.Kids[0], bodies, got, want); l != nil && s.K != sg.KDefault {
			return l
		}
	case sg.KTExpr, sg.KTFunc:
		if s.Fn == "wrap" && gt.IsTupleType() && wt.IsTupleType() && got.LengthInt() == 1 && want.LengthInt() == 1 {
			if l := locateVal(s.Kids[0], bodies, got.Index(cty.Zero), want.Index(cty.Zero)); l != nil {
				return l
			}
		}
	}
	return here
}

func valueClass(l *loc) string {
	if !l.got.Equals(l.want) {
		return typeClass(l)
	}
	return "c08.value." + nodeName(l.s) + "." + valueCond(l.gotV, l.wantV)
}

func valueCond(got, want cty.Value) string {
	switch {
	case !got.Type().Equals(want.Type()):
		return "type-differs"
	case !got.IsKnown() && want.IsKnown():
		return "got-unknown"
	case got.IsKnown() && !want.IsKnown():
		return "want-unknown"
	case !got.IsKnown():
		return "refinements-differ"
	case got.IsNull() && !want.IsNull():
		return "got-null"
	case !got.IsNull() && want.IsNull():
		return "want-null"
	}
	return "content-differs"
}

var slugRe = regexp.MustCompile(`[^a-z0-9]+`)

func slug(s string) string {
	return strings.Trim(slugRe.ReplaceAllString(strings.ToLower(s), "-"), "-")
}

func firstError(diags hcl.Diagnostics) *hcl.Diagnostic {
	for _, d := range diags {
		if d.Severity == hcl.DiagError {
			return d
		}
	}
	return nil
}

// summaryClass: the error summary with the block type name removed.
func summaryClass(d *hcl.Diagnostic) string {
	s := d.Summary
	f := strings.Fields(s)
	if len(f) == 3 && (f[2] == "block" || f[2] == "blocks") {
		s = f[0] + " " + f[2]
	}
	return slug(s)
}

func judge(c engine.Case) engine.Outcome {
	d := c.Data.(Data)
	if d.Spec == nil || d.Body == nil {
		return engine.Skip()
	}
	text := d.Body.Native()
	desc := func() string {
		return fmt.Sprintf("spec: %s\nbody:\n%s", d.Spec.String(), text)
	}
	var spec hcldec.Spec
	if p, msg, _ := guard(func() { spec = d.Spec.Build() }); p {
		return engine.Fail("c08.harness.build", "cannot build the spec: %s\n%s", msg, desc())
	}
	var implied cty.Type
	if p, msg, st := guard(func() { implied = hcldec.ImpliedType(spec) }); p {
		return engine.Fail(panicClass(d, "ImpliedType", st), "hcldec.ImpliedType panics: %s\n%s\n%s", msg, trimStack(st), desc())
	}
	if p, msg, st := guard(func() { hcldec.ImpliedSchema(spec) }); p {
		return engine.Fail(panicClass(d, "ImpliedSchema", st), "hcldec.ImpliedSchema panics: %s\n%s\n%s", msg, trimStack(st), desc())
	}
	// the implied type itself: as the doc comments of the spec types describe
	// (dynamic where hcldec documents that it cannot be predicted)
	refImplied := d.Spec.Implied()
	if errs := implied.TestConformance(refImplied); len(errs) != 0 {
		l := locate(d.Spec, nil, implied, refImplied)
		return engine.Fail("c08.implied-type."+nodeName(l.s)+"."+shapeDiff(l.got, l.want),
			"hcldec.ImpliedType = %s, but the spec types document %s (%v)\n%s", implied.FriendlyName(), refImplied.FriendlyName(), errs[0], desc())
	}

	f, pdiags := hclsyntax.ParseConfig([]byte(text), "t.hcl", hcl.InitialPos)
	if pdiags.HasErrors() {
		// a generator artefact (two edits that each add the same foreign attribute), not a statement
		// about hcldec: counted, never judged
		counters.Add("generated_bodies_not_parseable_skipped", 1)
		return engine.Skip()
	}
	ctx := &hcl.EvalContext{Variables: sg.Globals}

	if p, msg, st := guard(func() { hcldec.Variables(f.Body, spec) }); p {
		return engine.Fail(panicClass(d, "Variables", st), "hcldec.Variables panics: %s\n%s\n%s", msg, trimStack(st), desc())
	}
	if p, msg, st := guard(func() { hcldec.SourceRange(f.Body, spec) }); p {
		return engine.Fail(panicClass(d, "SourceRange", st), "hcldec.SourceRange panics: %s\n%s\n%s", msg, trimStack(st), desc())
	}

	want := noOpt(implied)
	sig := ""
	for _, partial := range []bool{false, true} {
		fn := "Decode"
		if partial {
			fn = "PartialDecode"
		}
		// the reference decoder first: it also names the known regions the case lies in
		ref := refdec.Decode(d.Spec, d.Body, sg.Globals, partial)
		// class of a failure of the given clause: inside a region of the
		// reference trace the region names the class, otherwise the located
		// construct does
		class := func(clause, located string) string {
			if len(ref.Regions) == 0 {
				return located
			}
			// prefer the region of the construct the failure was located at
			for _, r := range ref.Regions {
				kind := strings.SplitN(r, "-", 2)[0] // blocklist, blockset, blockmap, blockattrs, default
				if strings.Contains(strings.ToLower(located), "."+strings.TrimPrefix(kind, "block")+".") ||
					strings.Contains(strings.ToLower(located), "."+kind+"spec.") {
					return "c08." + r + "." + clause
				}
			}
			return "c08." + ref.Regions[0] + "." + clause
		}
		var val cty.Value
		var diags hcl.Diagnostics
		if p, msg, st := guard(func() {
			if partial {
				val, _, diags = hcldec.PartialDecode(f.Body, spec, ctx)
			} else {
				val, diags = hcldec.Decode(f.Body, spec, ctx)
			}
		}); p {
			return engine.Fail(class("panic", panicClass(d, fn, st)), "hcldec.%s panics: %s\n%s\n%s", fn, msg, trimStack(st), desc())
		}
		// decoding the same body with the same spec objects again must give the same outcome
		// (no state kept in specs or bodies between calls)
		{
			var val2 cty.Value
			var diags2 hcl.Diagnostics
			if p, msg, st := guard(func() {
				if partial {
					val2, _, diags2 = hcldec.PartialDecode(f.Body, spec, ctx)
				} else {
					val2, diags2 = hcldec.Decode(f.Body, spec, ctx)
				}
			}); p {
				return engine.Fail("c08.second-decode.panic", "the second hcldec.%s of the same body and spec panics: %s\n%s\n%s", fn, msg, trimStack(st), desc())
			}
			if val2 == cty.NilVal || val == cty.NilVal || diags2.HasErrors() != diags.HasErrors() || !val2.RawEquals(val) {
				if val != cty.NilVal && val2 != cty.NilVal {
					return engine.Fail("c08.second-decode.differs", "hcldec.%s of the same body and spec gives %s (errors=%v) the first time and %s (errors=%v) the second time\n%s", fn, vfmt.V(val), diags.HasErrors(), vfmt.V(val2), diags2.HasErrors(), desc())
				}
			}
		}
		hasErr := diags.HasErrors()
		if val == cty.NilVal {
			return engine.Fail("c08.nil-value."+nodeName(d.Spec), "hcldec.%s returned cty.NilVal\n%s", fn, desc())
		}
		// (2) type conformance
		if !conforms(val.Type(), want) {
			l := locate(d.Spec, []*sg.Body{d.Body}, val.Type(), want)
			errs := val.Type().TestConformance(want)
			why := "types are not equal although the implied type has no dynamic part"
			if len(errs) > 0 {
				why = errs[0].Error()
			}
			return engine.Fail(class("type", typeClass(l)),
				"hcldec.%s returned %s\nof type   %s\nimplied:  %s\n%s (at spec node %s; errors reported: %v)\n%s",
				fn, vfmt.V(val), val.Type().FriendlyName(), want.FriendlyName(), why, l.s.String(), hasErr, desc())
		}
		// (3) reference decoder
		if !hasErr && len(ref.Invalid) > 0 && !ref.UnsureValid {
			return engine.Fail(class("invalid-accepted", "c08.invalid-accepted."+ref.Invalid[0]),
				"hcldec.%s reports no error for a body that does not conform to the spec (%s) and returns %s\n%s", fn, strings.Join(ref.Invalid, ", "), vfmt.V(val), desc())
		}
		if hasErr && len(ref.Invalid) == 0 && !ref.UnsureValid {
			e := firstError(diags)
			return engine.Fail(class("valid-rejected", "c08.valid-rejected."+summaryClass(e)),
				"hcldec.%s reports %q (%s) for a body that conforms to the spec\n%s", fn, e.Summary, e.Detail, desc())
		}
		if !hasErr && len(ref.Invalid) == 0 && !ref.Unsure {
			if !val.RawEquals(ref.Val) {
				at := locateVal(d.Spec, []*sg.Body{d.Body}, val, ref.Val)
				return engine.Fail(class("value", valueClass(at)),
					"hcldec.%s = %s\nreference decoder = %s\n(at spec node %s: %s vs %s)\n%s", fn, vfmt.V(val), vfmt.V(ref.Val), at.s.String(), vfmt.V(at.gotV), vfmt.V(at.wantV), desc())
			}
			counters.Add("values_compared", 1)
			if d.Tag == "labels" {
				counters.Add("label_vector_bodies_values_compared", 1)
			}
		}
		if hasErr {
			counters.Add("error_results_type_checked", 1)
		}
		if !partial {
			for _, r := range ref.Regions {
				counters.Add("passing_in_region_"+r, 1)
			}
			if hasErr {
				sig = d.SpecText + " | E " + val.Type().FriendlyName() + " " + fmt.Sprint(val.IsKnown())
			} else {
				sig = d.SpecText + " | " + vfmt.V(val)
			}
		}
	}
	if d.SpecText == "" {
		sig = d.Spec.String() + sig
	}
	return engine.Pass(sig)
}

func shrinkCase(c engine.Case) []engine.Case {
	d := c.Data.(Data)
	var out []engine.Case
	for _, e := range sg.Edits(d.Body) {
		if len(e.Key()) >= len(d.Body.Key()) {
			continue // only removals
		}
		out = append(out, engine.Case{ID: d.SpecText + " | " + e.Key(), Data: Data{Spec: d.Spec, Body: e, SpecText: d.SpecText, Text: e.Native(), Tag: "shrunk"}})
	}
	return out
}

func main() {
	engine.Main(&engine.Check{
		ID:        "C08",
		Title:     "Decoding always yields a value of the specification's implied type",
		Technique: "bounded exhaustive enumeration of (spec tree, body) pairs on the real hcldec; type-conformance invariant + agreement with a reference decoder over the abstract body",
		Rule: "spec trees: quick = every tree of depth <= 2 over the rich alphabet (AttrSpec x 8 types (string, number, bool, list(string), map(number), object with an optional attribute, list of such objects, dynamic) x required, LiteralSpec, ExprSpec, BlockAttrsSpec x 3 element types x required, BlockLabelSpec 0..1, BlockSpec x required, BlockList/SetSpec x 4 Min/Max, BlockTupleSpec x 2, BlockMap/BlockObjectSpec x 1..2 labels, DefaultSpec (literal and attribute default of equal implied type), TransformExpr/TransformFuncSpec x {wrap: v -> [v], isnull: v -> bool, strlen: string -> number (over string-typed wrapped specs)}, RefineValueSpec x {noop,notnull}, ValidateSpec x {ok,warn,rejectnull}, ObjectSpec/TupleSpec of 1..2 children) + every tree of depth 3 over the reduced alphabet + the label-depth trees: every tree of depth 2..3 over a small alphabet (attr string/dynamic, literal, attrs, label 0, every block spec kind, BlockMap/BlockObjectSpec x {1,3} labels, default, wrap transforms, refine, validate, object/tuple) that contains a BlockMapSpec/BlockObjectSpec with 3 label names (at the top level, one level down inside every wrapping kind, and around every depth-2 tree); thorough = depth <= 3 rich + depth 4 tiny + label-depth trees with 3 and 4 label names (gen/specgen/enum.go); preconditions respected (consecutive label indices, no dynamic types under BlockMapSpec, equal implied types and non-block default in DefaultSpec, total transform functions, refinements that hold); " +
			"bodies per spec (gen/specgen/bodies.go): product of {absent, 2 conforming values} per attribute and every block count 0..3 per block type with representative contents, plus every body within k edits (k=1 quick, 2 thorough) of the min/full0/full1/mix base bodies (mix = blocks of one type with different contents) (remove attr, replace value by each of 8 pool values incl. null, unknown, dynamic and wrongly typed literals, extra attr, extra block type, remove block, duplicate block, add label, drop label; at every nesting level), plus the label-vector family (gen/specgen/labels.go): for every BlockMap/BlockObjectSpec with n >= 2 label names anywhere in the spec, the full0 body with that spec's blocks replaced by every sequence of 1..3 blocks whose label vectors are drawn from {x,y}^n (up to exchanging x and y: every pattern of shared prefixes of length 0..n, duplicates, and texts recurring across levels; block contents full0, full1, min). " +
			"distinct = distinct (spec, decoded value or error type)",
		Assumptions: []string{
			"hclsyntax parsing and expression evaluation, go-cty conversion/unification/value constructors are trusted (refdec uses go-cty)",
			"a value's type conforms when TestConformance(ImpliedType(spec) without optional-attribute markers) is empty, and is equal to it when the implied type has no dynamic part: values never carry optional-attribute markers",
			"within one body every AttrSpec names a different attribute and every block spec a different block type (same-name specs are not reached)",
		},
		Gen:    gen,
		Judge:  judge,
		Load:   engine.LoadAs[Data],
		Shrink: shrinkCase,
		Extra: func() map[string]any {
			m := map[string]any{}
			for k, v := range counters.Snapshot() {
				m[k] = v
			}
			return m
		},
		QuickBudget:    6 * time.Minute,
		ThoroughBudget: 40 * time.Minute,
	})
}
