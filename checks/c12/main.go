// C12 — Any sequence of writer-API edits leaves a valid file that matches the
// edits.
//
// Explicit-state search over operation histories: every sequence of at most
// 3 (quick) / 4 (thorough) hclwrite edit operations, from each of a handful of
// initial files (empty, generated through the API, parsed with comments), is
// replayed on a fresh real hclwrite.File next to the boring map/list model
// verif/ref/refwriter. After every single operation the oracle demands: no
// panic; File.Bytes() parses; the parsed attributes and blocks equal the model
// exactly and in order (recursively); the read accessors agree with the model;
// items no edit ever targeted still have their original tokens and comments;
// every comment of the initial file that is not attached to a removed item is
// still in its body, in the original order.
//
// The Tokens values the operations pass in are made once per history and
// reused (two attributes may hold the same *Token objects), and expressions are
// copied between attributes by their tokens; the model treats all attributes
// as independent.
package main

import (
	"fmt"
	"runtime/debug"
	"strings"
	"time"

	"verif/engine"
	"verif/ref/refwriter"
)

// Op is one edit operation of the alphabet.
type Op struct {
	K  string   `json:"k"`            // kind, see kinds below
	T  []int    `json:"t,omitempty"`  // target body: block indices from the root body (empty = root)
	N  string   `json:"n,omitempty"`  // attribute name (rename: from)
	N2 string   `json:"n2,omitempty"` // rename: to; copyraw/copyroot: name of the source attribute
	V  string   `json:"v,omitempty"`  // value id ("1","s","l","t") or raw token id ("x.y","1+2","7","null",`"q"`)
	Ty string   `json:"ty,omitempty"` // block type
	L  []string `json:"l,omitempty"`  // block labels
	I  int      `json:"i,omitempty"`  // index of the targeted block among the blocks of the target body
	A  bool     `json:"a,omitempty"`  // appblk: the new block already contains attribute a = 1

	name string // cached String() of alphabet members
}

// Data is one history.
type Data struct {
	Init int  `json:"init"` // index into initialFiles
	Ops  []Op `json:"ops"`
}

func (o Op) target() string {
	if len(o.T) == 0 {
		return "root"
	}
	s := "b"
	for i, x := range o.T {
		if i > 0 {
			s += "."
		}
		s += fmt.Sprint(x)
	}
	return s
}

func (o Op) String() string {
	t := o.target()
	ls := "[" + strings.Join(o.L, ",") + "]"
	switch o.K {
	case "setv", "setraw":
		return fmt.Sprintf("%s.%s(%s,%s)", t, o.K, o.N, o.V)
	case "copyraw":
		return fmt.Sprintf("%s.copyraw(%s<-%s)", t, o.N, o.N2)
	case "copyroot":
		return fmt.Sprintf("%s.copyraw(%s<-root.%s)", t, o.N, o.N2)
	case "settrav", "rm":
		return fmt.Sprintf("%s.%s(%s)", t, o.K, o.N)
	case "ren":
		return fmt.Sprintf("%s.ren(%s,%s)", t, o.N, o.N2)
	case "newblk":
		return fmt.Sprintf("%s.newblk(%s,%s)", t, o.Ty, ls)
	case "appblk":
		if o.A {
			return fmt.Sprintf("%s.appblk(%s,%s,+a)", t, o.Ty, ls)
		}
		return fmt.Sprintf("%s.appblk(%s,%s)", t, o.Ty, ls)
	case "rmblk":
		return fmt.Sprintf("%s.rmblk(#%d)", t, o.I)
	case "settype":
		return fmt.Sprintf("%s.#%d.settype(%s)", t, o.I, o.Ty)
	case "setlabels":
		return fmt.Sprintf("%s.#%d.setlabels(%s)", t, o.I, ls)
	}
	return t + "." + o.K
}

func mkCase(init int, ops []Op) engine.Case {
	var sb strings.Builder
	fmt.Fprintf(&sb, "f%d", init)
	for _, o := range ops {
		sb.WriteByte('|')
		if o.name != "" {
			sb.WriteString(o.name)
		} else {
			sb.WriteString(o.String())
		}
	}
	return engine.Case{ID: sb.String(), Data: Data{Init: init, Ops: append([]Op(nil), ops...)}}
}

// ---------------------------------------------------------------------------
// Alphabet

var (
	lNone = []string(nil)
	lOne  = []string{"l"}
	lTwo  = []string{"l", "m"}
)

// alphabetThorough is the full alphabet, alphabetQuick its core subset (the
// members marked quick). An operation is offered in a state only if its target
// body / block exists in the model of that state.
var alphabetQuick, alphabetThorough = buildAlphabets()

func alphabetFor(tier string) []Op {
	if tier == "thorough" {
		return alphabetThorough
	}
	return alphabetQuick
}

func buildAlphabets() (quick, thorough []Op) {
	add := func(t []int, core bool, ops ...Op) {
		for _, o := range ops {
			o.T = t
			o.name = o.String()
			thorough = append(thorough, o)
			if core {
				quick = append(quick, o)
			}
		}
	}
	root := []int(nil)
	// root body: the complete operation set
	add(root, true,
		Op{K: "setv", N: "a", V: "1"}, Op{K: "setv", N: "a", V: "s"}, Op{K: "setv", N: "a", V: "l"},
		Op{K: "setv", N: "b", V: "1"}, Op{K: "setv", N: "c", V: "1"},
		Op{K: "setraw", N: "a", V: "x.y"}, Op{K: "setraw", N: "c", V: "1+2"},
		Op{K: "settrav", N: "a"}, Op{K: "settrav", N: "c"},
		// rename: onto an existing name, onto a fresh name, from an absent name, onto itself
		Op{K: "ren", N: "a", N2: "b"}, Op{K: "ren", N: "a", N2: "c"}, Op{K: "ren", N: "b", N2: "a"},
		Op{K: "ren", N: "c", N2: "a"}, Op{K: "ren", N: "a", N2: "a"},
		Op{K: "rm", N: "a"}, Op{K: "rm", N: "b"}, Op{K: "rm", N: "c"},
		Op{K: "newblk", Ty: "blk"}, Op{K: "newblk", Ty: "blk", L: lTwo}, Op{K: "newblk", Ty: "other"},
		Op{K: "appblk", Ty: "blk"}, Op{K: "appblk", Ty: "other", L: lTwo}, Op{K: "appblk", Ty: "blk", L: lOne, A: true},
		Op{K: "rmblk", I: 0}, Op{K: "rmblk", I: 1}, Op{K: "rmforeign"}, Op{K: "reappend"},
		Op{K: "settype", I: 0, Ty: "blk"}, Op{K: "settype", I: 0, Ty: "other"},
		Op{K: "setlabels", I: 0}, Op{K: "setlabels", I: 0, L: lOne}, Op{K: "setlabels", I: 0, L: lTwo},
		Op{K: "nl"}, Op{K: "unstruct"},
		// token sharing: two attributes are given the same one-token Tokens
		// value / the tokens of another attribute's expression; every
		// value-setting operation on a, b and c is in this list (setv with a
		// number, a keyword, a string, a list; setraw; settrav)
		Op{K: "setraw", N: "a", V: "7"}, Op{K: "setraw", N: "b", V: "7"},
		Op{K: "copyraw", N: "c", N2: "a"},
		Op{K: "setv", N: "a", V: "t"},
	)
	add(root, false,
		Op{K: "setraw", N: "a", V: "1+2"}, Op{K: "setraw", N: "c", V: "x.y"},
		Op{K: "setraw", N: "c", V: "7"}, Op{K: "setraw", N: "a", V: "null"}, Op{K: "setraw", N: "b", V: "null"},
		Op{K: "setraw", N: "a", V: `"q"`}, Op{K: "setraw", N: "b", V: `"q"`},
		Op{K: "copyraw", N: "b", N2: "a"}, Op{K: "copyraw", N: "a", N2: "b"}, Op{K: "copyraw", N: "a", N2: "c"}, Op{K: "copyraw", N: "a", N2: "a"},
		Op{K: "setv", N: "b", V: "t"}, Op{K: "setv", N: "b", V: "s"}, Op{K: "setv", N: "c", V: "t"}, Op{K: "settrav", N: "b"},
		Op{K: "ren", N: "b", N2: "c"}, Op{K: "ren", N: "c", N2: "b"}, Op{K: "ren", N: "b", N2: "b"}, Op{K: "ren", N: "c", N2: "c"},
		Op{K: "newblk", Ty: "blk", L: lOne}, Op{K: "newblk", Ty: "other", L: lOne}, Op{K: "newblk", Ty: "other", L: lTwo},
		Op{K: "settype", I: 1, Ty: "blk"}, Op{K: "settype", I: 1, Ty: "other"},
		Op{K: "setlabels", I: 1}, Op{K: "setlabels", I: 1, L: lOne}, Op{K: "setlabels", I: 1, L: lTwo},
	)
	// body of block #0 of the root body
	add([]int{0}, true,
		Op{K: "setv", N: "a", V: "1"}, Op{K: "setv", N: "c", V: "s"}, Op{K: "setraw", N: "a", V: "x.y"},
		Op{K: "ren", N: "a", N2: "c"}, Op{K: "rm", N: "a"},
		Op{K: "newblk", Ty: "blk", L: lOne}, Op{K: "rmblk", I: 0},
		Op{K: "settype", I: 0, Ty: "other"}, Op{K: "setlabels", I: 0, L: lTwo},
		Op{K: "nl"},
		Op{K: "copyraw", N: "c", N2: "a"}, Op{K: "copyroot", N: "b", N2: "a"},
		Op{K: "setv", N: "a", V: "t"},
	)
	add([]int{0}, false,
		Op{K: "setv", N: "c", V: "1"}, Op{K: "setraw", N: "c", V: "7"}, Op{K: "setraw", N: "a", V: "7"}, Op{K: "copyraw", N: "a", N2: "b"}, Op{K: "setv", N: "b", V: "1"},
		Op{K: "settrav", N: "c"}, Op{K: "ren", N: "a", N2: "b"}, Op{K: "ren", N: "b", N2: "a"}, Op{K: "rm", N: "c"},
		Op{K: "appblk", Ty: "other"}, Op{K: "rmforeign"},
	)
	// body of block #1 of the root body
	add([]int{1}, true,
		Op{K: "setv", N: "a", V: "1"}, Op{K: "setv", N: "c", V: "1"}, Op{K: "rm", N: "a"},
		Op{K: "newblk", Ty: "blk"}, Op{K: "nl"},
	)
	add([]int{1}, false,
		Op{K: "copyraw", N: "c", N2: "b"}, Op{K: "copyraw", N: "c", N2: "a"}, Op{K: "setv", N: "a", V: "t"}, Op{K: "setraw", N: "c", V: "7"},
		Op{K: "settrav", N: "a"}, Op{K: "ren", N: "a", N2: "c"}, Op{K: "rmblk", I: 0},
	)
	// body of the first block nested in block #0
	add([]int{0, 0}, true,
		Op{K: "setv", N: "b", V: "1"}, Op{K: "setv", N: "c", V: "1"}, Op{K: "rm", N: "b"},
		Op{K: "newblk", Ty: "blk"},
	)
	add([]int{0, 0}, false,
		Op{K: "copyraw", N: "c", N2: "b"}, Op{K: "setv", N: "b", V: "t"}, Op{K: "rm", N: "c"},
		Op{K: "ren", N: "b", N2: "c"},
	)
	return quick, thorough
}

// ---------------------------------------------------------------------------
// Model side of an operation

// prep is what is known about an operation in a model state before it runs.
type prep struct {
	ok      bool // applicable
	body    *refwriter.Body
	chain   []*refwriter.Item
	blk     *refwriter.Item // targeted block (rmblk, settype, setlabels, reappend)
	src     *refwriter.Item // source attribute (copyraw, copyroot)
	hazard  string          // "" or the name of a known layout hazard of the target body (see FINDINGS.md)
	appends bool            // the operation adds tokens at the end of the target body
}

func prepare(m *refwriter.File, op Op) prep {
	body, chain, ok := m.Resolve(op.T)
	if !ok {
		return prep{}
	}
	p := prep{ok: true, body: body, chain: chain}
	switch op.K {
	case "setv", "setraw", "settrav":
		p.appends = body.Attr(op.N) == nil
	case "copyraw", "copyroot":
		// offered only where the source attribute exists (GetAttribute of an
		// absent name is nil, there is nothing to copy)
		p.src = body.Attr(op.N2)
		if op.K == "copyroot" {
			if len(op.T) == 0 {
				return prep{}
			}
			p.src = m.Root.Attr(op.N2)
		}
		if p.src == nil {
			return prep{}
		}
		p.appends = body.Attr(op.N) == nil
	case "newblk", "appblk", "nl", "unstruct":
		p.appends = true
	case "reappend":
		if len(op.T) != 0 || m.Held == nil {
			return prep{}
		}
		p.blk = m.Held
		p.appends = true
	case "rmblk", "settype", "setlabels":
		bl := body.Blocks()
		if op.I < 0 || op.I >= len(bl) {
			return prep{}
		}
		p.blk = bl[op.I]
	case "ren", "rm", "rmforeign":
	default:
		return prep{}
	}
	if p.appends {
		switch {
		case body.OneLine:
			p.hazard = "oneline"
		case len(op.T) == 0 && !body.TailSep && body.Last() != nil && body.Last().NoEOL:
			p.hazard = "noeol"
		}
	}
	return p
}

// result is what the model predicts about an operation.
type result struct {
	retBool *bool           // documented boolean result (RenameAttribute, RemoveBlock)
	retNil  *bool           // RemoveAttribute: whether the result must be nil
	newBlk  *refwriter.Item // block item created by the operation
}

func bp(b bool) *bool { return &b }

func exprOf(op Op) (text, tag string) {
	switch op.K {
	case "setv":
		return values[op.V].text, "v:" + op.V
	case "setraw":
		return op.V, "raw"
	case "settrav":
		return "v.w", "trav"
	}
	return "", ""
}

func mutate(m *refwriter.File, p prep, op Op) result {
	var r result
	switch op.K {
	case "setv", "setraw", "settrav":
		text, tag := exprOf(op)
		p.body.SetAttr(op.N, text, tag)
		refwriter.Touch(p.chain)
	case "copyraw", "copyroot":
		// the target gets the expression the source has now; the source is
		// only read and the two are unrelated afterwards
		tag := p.src.Tag
		if tag == "orig" {
			tag = "raw"
		}
		p.body.SetAttr(op.N, p.src.Expr, tag)
		refwriter.Touch(p.chain)
	case "ren":
		ok := p.body.Rename(op.N, op.N2)
		if op.N != op.N2 {
			// "Takes no action if fromName is missing or there is already a
			// conflicting attribute called toName. Returns true if the rename
			// succeeded." Whether an attribute conflicts with itself is not
			// said, so the result of rename(x, x) is not asserted (the state
			// is the same either way).
			r.retBool = bp(ok)
		}
		if ok {
			refwriter.Touch(p.chain)
		}
	case "rm":
		removed := p.body.RemoveAttr(op.N)
		r.retNil = bp(!removed)
		if removed {
			refwriter.Touch(p.chain)
		}
	case "newblk", "appblk":
		it := &refwriter.Item{Type: op.Ty, Labels: append([]string(nil), op.L...), Body: &refwriter.Body{}}
		if op.A {
			it.Body.SetAttr("a", values["1"].text, "v:1")
		}
		p.body.AppendBlock(it)
		refwriter.Touch(p.chain)
		r.newBlk = it
	case "rmblk":
		ok := p.body.RemoveBlock(p.blk)
		r.retBool = bp(ok)
		m.Held = p.blk
		refwriter.Touch(p.chain)
	case "rmforeign":
		r.retBool = bp(false)
	case "reappend":
		m.Held = nil
		m.Root.AppendBlock(p.blk)
	case "settype":
		p.blk.SetType(op.Ty)
		refwriter.Touch(p.chain)
	case "setlabels":
		p.blk.SetLabels(op.L)
		refwriter.Touch(p.chain)
	case "nl", "unstruct":
		p.body.TailSep = true
		refwriter.Touch(p.chain)
	}
	return r
}

// ---------------------------------------------------------------------------
// Enumeration

func gen(tier string, emit func(engine.Case) bool) {
	maxLen := 3
	if tier == "thorough" {
		maxLen = 4
	}
	full := alphabetFor(tier)
	inits := make([]*refwriter.File, len(initialFiles))
	for i := range initialFiles {
		inits[i] = initialModel(i)
	}
	// simplest first: by history length, then by initial file, then in
	// alphabet order. Histories are pruned only by applicability in the
	// model (target body / block exists).
	for l := 0; l <= maxLen; l++ {
		// histories of length 4 are built from the core alphabet only (every
		// prefix of such a history is among the length-3 histories)
		candidates := full
		if l >= 4 {
			candidates = alphabetQuick
		}
		for i := range inits {
			ops := make([]Op, 0, l)
			var rec func(m *refwriter.File, n int) bool
			rec = func(m *refwriter.File, n int) bool {
				if n == 0 {
					return emit(mkCase(i, ops))
				}
				for _, op := range candidates {
					if !prepare(m, op).ok {
						continue
					}
					next := m
					if n > 1 {
						next = m.Clone()
						mutate(next, prepare(next, op), op)
					}
					ops = append(ops, op)
					ok := rec(next, n-1)
					ops = ops[:len(ops)-1]
					if !ok {
						return false
					}
				}
				return true
			}
			if !rec(inits[i], l) {
				return
			}
		}
	}
}

func shrinkHistory(c engine.Case) []engine.Case {
	d := c.Data.(Data)
	var out []engine.Case
	for i := range d.Ops {
		ops := append(append([]Op(nil), d.Ops[:i]...), d.Ops[i+1:]...)
		out = append(out, mkCase(d.Init, ops))
	}
	if d.Init != 0 {
		out = append(out, mkCase(0, d.Ops))
	}
	return out
}

func main() {
	// allocation-heavy, memory is not a concern: trade heap for GC time
	debug.SetGCPercent(800)
	engine.Main(&engine.Check{
		ID:        "C12",
		Title:     "Any sequence of writer-API edits leaves a valid file that matches the edits",
		Technique: "explicit-state exploration of all bounded operation histories on the real hclwrite objects, compared after every step with a map/list reference model",
		Rule: fmt.Sprintf("all sequences of <= 3 operations over a core alphabet of %d edit operations (quick) / all sequences of <= 3 operations over the full alphabet of %d operations plus all sequences of 4 operations over the core alphabet (thorough) "+
			"(SetAttributeValue/Raw/Traversal, SetAttributeRaw with the tokens of another attribute's expression (same body / root body), RenameAttribute, RemoveAttribute, AppendNewBlock, AppendBlock of a new / pre-populated / previously removed block, RemoveBlock of block #i or of a foreign block, "+
			"Block.SetType, Block.SetLabels, AppendNewline, AppendUnstructuredTokens; names a,b,c; values 1,true,\"s\",list; raw tokens x.y, 1+2, 7, null, \"q\"; labels [],[l],[l,m]; every Tokens value is made once per history and passed again to every operation with the same raw id, so attributes share *Token objects) "+
			"on the root body, the bodies of root blocks #0 and #1 and the first body nested in #0, from each of %d initial files (empty, generated via the API, parsed files with lead/line comments, blank lines, nested labelled block, one-line block, missing final newline, "+
			"items with a #/'//' line comment directly followed by comment lines at three depths). "+
			"An operation is offered only where its target (and source attribute) exists in the model. No state merging: every history is replayed from scratch on a fresh file. "+
			"The complete oracle (parses; items = model; untouched items keep their text; per body, every comment of the initial file not attached to a removed item is still there, in order) judges the final state of every history (the space is prefix-closed, so that is every reachable state); intermediate steps are checked for panics, documented results and accessor agreement. "+
			"Distinct = distinct (final model state, final serialised bytes).", len(alphabetQuick), len(alphabetThorough), len(initialFiles)),
		Assumptions: []string{
			"hclsyntax.ParseConfig/LexConfig are trusted to read the serialised output back (attribute names, expression ranges, block types/labels, token boundaries)",
			"go-cty evaluation of literal expressions is trusted for the semantic fallback comparison of generated values",
			"return values of SetAttributeValue/Raw/Traversal are not asserted (they are results of an edit, not read accessors; see FINDINGS.md note)",
		},
		Gen:    gen,
		Judge:  judge,
		Load:   engine.LoadAs[Data],
		Shrink: shrinkHistory,
		States: func() (int64, int64, int64) {
			return states.Len(), transitions.Load(), traces.Load()
		},
		Extra: func() map[string]any {
			m := map[string]any{"alphabet_size_quick": len(alphabetQuick), "alphabet_size_thorough": len(alphabetThorough), "initial_files": len(initialFiles)}
			for k, v := range counters.Snapshot() {
				m[k] = v
			}
			return m
		},
		QuickBudget:    6 * time.Minute,
		ThoroughBudget: 40 * time.Minute,
	})
}
