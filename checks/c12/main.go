// C12 — Any sequence of writer-API edits leaves a valid file that matches the
// edits.
//
// Explicit-state search over operation histories: every sequence of at most
// 3 (quick) / 4 (thorough) hclwrite edit operations, from each of a handful of
// initial files (empty, generated through the API, parsed with comments), is
// replayed on a fresh real hclwrite.File next to the boring map/list model
// verif/ref/refwriter. After every single operation the oracle demands: no
// panic; File.Bytes() parses; the parsed attributes and blocks equal the model
// exactly and in order (recursively); the read accessors agree with the model;
// items no edit ever targeted still have their original tokens and comments;
// every comment of the initial file that is not attached to a removed item is
// still in its body, in the original order.
//
// The Tokens values the operations pass in are made once per history and
// reused (two attributes may hold the same *Token objects), and expressions are
// copied between attributes by their tokens; the model treats all attributes
// as independent.
//
// Caller-side steps: what the writer was handed (a Tokens value, a label
// slice, a traversal) belongs to the writer as it was at the time of the call.
// The caller may afterwards overwrite elements of its own slice or truncate
// and refill it (operations caller-overwrite / caller-refill), and in the
// scratch-buffer variant of a history it builds every slice argument in one
// reused buffer per argument type and scrubs that buffer after each call.
package main

import (
	"fmt"
	"os"
	"runtime/debug"
	"strings"
	"time"

	"verif/engine"
	"verif/ref/refwriter"
)

// Op is one edit operation of the alphabet.
type Op struct {
	K  string   `json:"k"`            // kind, see kinds below
	T  []int    `json:"t,omitempty"`  // target body: block indices from the root body (empty = root)
	N  string   `json:"n,omitempty"`  // attribute name (rename: from)
	N2 string   `json:"n2,omitempty"` // rename: to; copyraw/copyroot: name of the source attribute
	V  string   `json:"v,omitempty"`  // value id ("1","s","l","t") or raw token id ("x.y","1+2","7","null",`"q"`); caller-overwrite/-refill: id of the caller's Tokens value
	Ty string   `json:"ty,omitempty"` // block type
	L  []string `json:"l,omitempty"`  // block labels
	I  int      `json:"i,omitempty"`  // index of the targeted block among the blocks of the target body
	A  bool     `json:"a,omitempty"`  // appblk: the new block already contains attribute a = 1

	name string // cached String() of alphabet members
}

// Data is one history.
type Data struct {
	Init int  `json:"init"` // index into initialFiles
	Ops  []Op `json:"ops"`
	// Scratch: the caller builds every slice argument (Tokens, labels,
	// traversal) in one reused buffer per argument type
	// (buf = append(buf[:0], ...)) and overwrites the buffer's elements with
	// placeholders as soon as the call has returned.
	Scratch bool `json:"scratch,omitempty"`
}

func (o Op) target() string {
	if len(o.T) == 0 {
		return "root"
	}
	s := "b"
	for i, x := range o.T {
		if i > 0 {
			s += "."
		}
		s += fmt.Sprint(x)
	}
	return s
}

func (o Op) String() string {
	t := o.target()
	ls := "[" + strings.Join(o.L, ",") + "]"
	switch o.K {
	case "setv", "setraw":
		return fmt.Sprintf("%s.%s(%s,%s)", t, o.K, o.N, o.V)
	case "copyraw":
		return fmt.Sprintf("%s.copyraw(%s<-%s)", t, o.N, o.N2)
	case "copyroot":
		return fmt.Sprintf("%s.copyraw(%s<-root.%s)", t, o.N, o.N2)
	case "settrav", "rm":
		return fmt.Sprintf("%s.%s(%s)", t, o.K, o.N)
	case "ren":
		return fmt.Sprintf("%s.ren(%s,%s)", t, o.N, o.N2)
	case "newblk":
		return fmt.Sprintf("%s.newblk(%s,%s)", t, o.Ty, ls)
	case "appblk":
		if o.A {
			return fmt.Sprintf("%s.appblk(%s,%s,+a)", t, o.Ty, ls)
		}
		return fmt.Sprintf("%s.appblk(%s,%s)", t, o.Ty, ls)
	case "rmblk":
		return fmt.Sprintf("%s.rmblk(#%d)", t, o.I)
	case "caller-overwrite", "caller-refill":
		return fmt.Sprintf("%s(%s)", o.K, o.V)
	case "settype":
		return fmt.Sprintf("%s.#%d.settype(%s)", t, o.I, o.Ty)
	case "setlabels":
		return fmt.Sprintf("%s.#%d.setlabels(%s)", t, o.I, ls)
	}
	return t + "." + o.K
}

func mkCase(init int, scratch bool, ops []Op) engine.Case {
	var sb strings.Builder
	fmt.Fprintf(&sb, "f%d", init)
	if scratch {
		sb.WriteString("+scratch")
	}
	for _, o := range ops {
		sb.WriteByte('|')
		if o.name != "" {
			sb.WriteString(o.name)
		} else {
			sb.WriteString(o.String())
		}
	}
	return engine.Case{ID: sb.String(), Data: Data{Init: init, Ops: append([]Op(nil), ops...), Scratch: scratch}}
}

// ---------------------------------------------------------------------------
// Alphabet

var (
	lNone  = []string(nil)
	lOne   = []string{"l"}
	lTwo   = []string{"l", "m"}
	lSpace = []string{"x y"}
)

// alphabetThorough is the full alphabet, alphabetQuick its core subset (the
// members marked quick). An operation is offered in a state only if its target
// body / block exists in the model of that state.
var alphabetQuick, alphabetThorough = buildAlphabets()

func alphabetFor(tier string) []Op {
	if tier == "thorough" {
		return alphabetThorough
	}
	return alphabetQuick
}

func buildAlphabets() (quick, thorough []Op) {
	add := func(t []int, core bool, ops ...Op) {
		for _, o := range ops {
			o.T = t
			o.name = o.String()
			thorough = append(thorough, o)
			if core {
				quick = append(quick, o)
			}
		}
	}
	root := []int(nil)
	// root body: the complete operation set
	add(root, true,
		Op{K: "setv", N: "a", V: "1"}, Op{K: "setv", N: "a", V: "s"}, Op{K: "setv", N: "a", V: "l"},
		Op{K: "setv", N: "b", V: "1"}, Op{K: "setv", N: "c", V: "1"},
		Op{K: "setraw", N: "a", V: "x.y"}, Op{K: "setraw", N: "c", V: "1+2"},
		Op{K: "settrav", N: "a"}, Op{K: "settrav", N: "c"},
		// rename: onto an existing name, onto a fresh name, from an absent name, onto itself
		Op{K: "ren", N: "a", N2: "b"}, Op{K: "ren", N: "a", N2: "c"}, Op{K: "ren", N: "b", N2: "a"},
		Op{K: "ren", N: "c", N2: "a"}, Op{K: "ren", N: "a", N2: "a"},
		Op{K: "rm", N: "a"}, Op{K: "rm", N: "b"}, Op{K: "rm", N: "c"},
		Op{K: "newblk", Ty: "blk"}, Op{K: "newblk", Ty: "blk", L: lTwo}, Op{K: "newblk", Ty: "other"},
		Op{K: "appblk", Ty: "blk"}, Op{K: "appblk", Ty: "other", L: lTwo}, Op{K: "appblk", Ty: "blk", L: lOne, A: true},
		Op{K: "rmblk", I: 0}, Op{K: "rmblk", I: 1}, Op{K: "rmforeign"}, Op{K: "reappend"},
		Op{K: "settype", I: 0, Ty: "blk"}, Op{K: "settype", I: 0, Ty: "other"},
		Op{K: "setlabels", I: 0}, Op{K: "setlabels", I: 0, L: lOne}, Op{K: "setlabels", I: 0, L: lTwo},
		// a label that is not an identifier
		Op{K: "setlabels", I: 0, L: lSpace},
		Op{K: "nl"}, Op{K: "unstruct"},
		// token sharing: two attributes are given the same one-token Tokens
		// value / the tokens of another attribute's expression; every
		// value-setting operation on a, b and c is in this list (setv with a
		// number, a keyword, a string, a list; setraw; settrav)
		Op{K: "setraw", N: "a", V: "7"}, Op{K: "setraw", N: "b", V: "7"},
		Op{K: "copyraw", N: "c", N2: "a"},
		Op{K: "setv", N: "a", V: "t"},
		// caller-side: the Tokens value with this id, handed to an earlier
		// setraw of the history, is changed in place by the caller: element 0
		// is overwritten with another token / the slice is truncated and
		// refilled (s = append(s[:0], tok)); three-token and one-token values
		Op{K: "caller-overwrite", V: "x.y"}, Op{K: "caller-overwrite", V: "7"},
		Op{K: "caller-refill", V: "x.y"}, Op{K: "caller-refill", V: "1+2"},
	)
	add(root, false,
		Op{K: "caller-overwrite", V: "1+2"}, Op{K: "caller-refill", V: "7"},
		Op{K: "caller-overwrite", V: "null"}, Op{K: "caller-refill", V: `"q"`},
		Op{K: "setraw", N: "a", V: "1+2"}, Op{K: "setraw", N: "c", V: "x.y"},
		Op{K: "setraw", N: "c", V: "7"}, Op{K: "setraw", N: "a", V: "null"}, Op{K: "setraw", N: "b", V: "null"},
		Op{K: "setraw", N: "a", V: `"q"`}, Op{K: "setraw", N: "b", V: `"q"`},
		Op{K: "copyraw", N: "b", N2: "a"}, Op{K: "copyraw", N: "a", N2: "b"}, Op{K: "copyraw", N: "a", N2: "c"}, Op{K: "copyraw", N: "a", N2: "a"},
		Op{K: "setv", N: "b", V: "t"}, Op{K: "setv", N: "b", V: "s"}, Op{K: "setv", N: "c", V: "t"}, Op{K: "settrav", N: "b"},
		Op{K: "ren", N: "b", N2: "c"}, Op{K: "ren", N: "c", N2: "b"}, Op{K: "ren", N: "b", N2: "b"}, Op{K: "ren", N: "c", N2: "c"},
		Op{K: "newblk", Ty: "blk", L: lOne}, Op{K: "newblk", Ty: "other", L: lOne}, Op{K: "newblk", Ty: "other", L: lTwo},
		Op{K: "settype", I: 1, Ty: "blk"}, Op{K: "settype", I: 1, Ty: "other"},
		Op{K: "setlabels", I: 1}, Op{K: "setlabels", I: 1, L: lOne}, Op{K: "setlabels", I: 1, L: lTwo},
	)
	// body of block #0 of the root body
	add([]int{0}, true,
		Op{K: "setv", N: "a", V: "1"}, Op{K: "setv", N: "c", V: "s"}, Op{K: "setraw", N: "a", V: "x.y"},
		Op{K: "ren", N: "a", N2: "c"}, Op{K: "rm", N: "a"},
		Op{K: "newblk", Ty: "blk", L: lOne}, Op{K: "rmblk", I: 0},
		Op{K: "settype", I: 0, Ty: "other"}, Op{K: "setlabels", I: 0, L: lTwo},
		Op{K: "nl"},
		Op{K: "copyraw", N: "c", N2: "a"}, Op{K: "copyroot", N: "b", N2: "a"},
		Op{K: "setv", N: "a", V: "t"},
	)
	add([]int{0}, false,
		Op{K: "setv", N: "c", V: "1"}, Op{K: "setraw", N: "c", V: "7"}, Op{K: "setraw", N: "a", V: "7"}, Op{K: "copyraw", N: "a", N2: "b"}, Op{K: "setv", N: "b", V: "1"},
		Op{K: "settrav", N: "c"}, Op{K: "ren", N: "a", N2: "b"}, Op{K: "ren", N: "b", N2: "a"}, Op{K: "rm", N: "c"},
		Op{K: "appblk", Ty: "other"}, Op{K: "rmforeign"},
	)
	// body of block #1 of the root body
	add([]int{1}, true,
		Op{K: "setv", N: "a", V: "1"}, Op{K: "setv", N: "c", V: "1"}, Op{K: "rm", N: "a"},
		Op{K: "newblk", Ty: "blk"}, Op{K: "nl"},
	)
	add([]int{1}, false,
		Op{K: "copyraw", N: "c", N2: "b"}, Op{K: "copyraw", N: "c", N2: "a"}, Op{K: "setv", N: "a", V: "t"}, Op{K: "setraw", N: "c", V: "7"},
		Op{K: "settrav", N: "a"}, Op{K: "ren", N: "a", N2: "c"}, Op{K: "rmblk", I: 0},
	)
	// body of the first block nested in block #0
	add([]int{0, 0}, true,
		Op{K: "setv", N: "b", V: "1"}, Op{K: "setv", N: "c", V: "1"}, Op{K: "rm", N: "b"},
		Op{K: "newblk", Ty: "blk"},
	)
	add([]int{0, 0}, false,
		Op{K: "copyraw", N: "c", N2: "b"}, Op{K: "setv", N: "b", V: "t"}, Op{K: "rm", N: "c"},
		Op{K: "ren", N: "b", N2: "c"},
	)
	return quick, thorough
}

// ---------------------------------------------------------------------------
// Model side of an operation

// prep is what is known about an operation in a model state before it runs.
type prep struct {
	ok      bool // applicable
	body    *refwriter.Body
	chain   []*refwriter.Item
	blk     *refwriter.Item // targeted block (rmblk, settype, setlabels, reappend)
	src     *refwriter.Item // source attribute (copyraw, copyroot)
	hazard  string          // "" or the name of a known layout hazard of the target body (see FINDINGS.md)
	appends bool            // the operation adds tokens at the end of the target body
}

func prepare(m *refwriter.File, op Op) prep {
	body, chain, ok := m.Resolve(op.T)
	if !ok {
		return prep{}
	}
	p := prep{ok: true, body: body, chain: chain}
	switch op.K {
	case "caller-overwrite", "caller-refill":
		// offered once the caller has handed that Tokens value to the writer
		// (before that, changing it is the same as making a different value)
		if len(m.Caller[op.V]) == 0 {
			return prep{}
		}
	case "setv", "setraw", "settrav":
		p.appends = body.Attr(op.N) == nil
	case "copyraw", "copyroot":
		// offered only where the source attribute exists (GetAttribute of an
		// absent name is nil, there is nothing to copy)
		p.src = body.Attr(op.N2)
		if op.K == "copyroot" {
			if len(op.T) == 0 {
				return prep{}
			}
			p.src = m.Root.Attr(op.N2)
		}
		if p.src == nil {
			return prep{}
		}
		p.appends = body.Attr(op.N) == nil
	case "newblk", "appblk", "nl", "unstruct":
		p.appends = true
	case "reappend":
		if len(op.T) != 0 || m.Held == nil {
			return prep{}
		}
		p.blk = m.Held
		p.appends = true
	case "rmblk", "settype", "setlabels":
		bl := body.Blocks()
		if op.I < 0 || op.I >= len(bl) {
			return prep{}
		}
		p.blk = bl[op.I]
	case "ren", "rm", "rmforeign":
	default:
		return prep{}
	}
	if p.appends {
		switch {
		case body.OneLine:
			p.hazard = "oneline"
		case len(op.T) == 0 && !body.TailSep && body.Last() != nil && body.Last().NoEOL:
			p.hazard = "noeol"
		}
	}
	return p
}

// result is what the model predicts about an operation.
type result struct {
	retBool *bool           // documented boolean result (RenameAttribute, RemoveBlock)
	retNil  *bool           // RemoveAttribute: whether the result must be nil
	newBlk  *refwriter.Item // block item created by the operation
}

func bp(b bool) *bool { return &b }

func exprOf(op Op) (text, tag string) {
	switch op.K {
	case "setv":
		return values[op.V].text, "v:" + op.V
	case "setraw":
		return op.V, "raw"
	case "settrav":
		return "v.w", "trav"
	}
	return "", ""
}

func mutate(m *refwriter.File, p prep, op Op) result {
	var r result
	switch op.K {
	case "setv", "setraw", "settrav":
		text, tag := exprOf(op)
		if op.K == "setraw" {
			// the attribute gets the tokens the caller's value holds now
			text = strings.Join(m.CallerSlice(op.V, rawTexts(op.V)), "")
		}
		p.body.SetAttr(op.N, text, tag)
		refwriter.Touch(p.chain)
	case "caller-overwrite":
		// only the caller's own value changes; no attribute does
		m.Caller[op.V][0] = overwriteText
	case "caller-refill":
		m.Caller[op.V] = []string{refillText}
	case "copyraw", "copyroot":
		// the target gets the expression the source has now; the source is
		// only read and the two are unrelated afterwards
		tag := p.src.Tag
		if tag == "orig" {
			tag = "raw"
		}
		p.body.SetAttr(op.N, p.src.Expr, tag)
		refwriter.Touch(p.chain)
	case "ren":
		ok := p.body.Rename(op.N, op.N2)
		if op.N != op.N2 {
			// "Takes no action if fromName is missing or there is already a
			// conflicting attribute called toName. Returns true if the rename
			// succeeded." Whether an attribute conflicts with itself is not
			// said, so the result of rename(x, x) is not asserted (the state
			// is the same either way).
			r.retBool = bp(ok)
		}
		if ok {
			refwriter.Touch(p.chain)
		}
	case "rm":
		removed := p.body.RemoveAttr(op.N)
		r.retNil = bp(!removed)
		if removed {
			refwriter.Touch(p.chain)
		}
	case "newblk", "appblk":
		it := &refwriter.Item{Type: op.Ty, Labels: append([]string(nil), op.L...), Body: &refwriter.Body{}}
		if op.A {
			it.Body.SetAttr("a", values["1"].text, "v:1")
		}
		p.body.AppendBlock(it)
		refwriter.Touch(p.chain)
		r.newBlk = it
	case "rmblk":
		ok := p.body.RemoveBlock(p.blk)
		r.retBool = bp(ok)
		m.Held = p.blk
		refwriter.Touch(p.chain)
	case "rmforeign":
		r.retBool = bp(false)
	case "reappend":
		m.Held = nil
		m.Root.AppendBlock(p.blk)
	case "settype":
		p.blk.SetType(op.Ty)
		refwriter.Touch(p.chain)
	case "setlabels":
		p.blk.SetLabels(op.L)
		refwriter.Touch(p.chain)
	case "nl", "unstruct":
		p.body.TailSep = true
		refwriter.Touch(p.chain)
	}
	return r
}

// ---------------------------------------------------------------------------
// Enumeration

func gen(tier string, emit func(engine.Case) bool) {
	maxLen := 3
	// merged search (merged.go): depth over the deep alphabet / over the core
	// alphabet, and the share of the run's time the first of the two may use
	deepDepth, coreDepth, deepShare := 5, 0, time.Duration(0)
	if tier == "thorough" {
		deepDepth, coreDepth, deepShare = 7, 5, 15*time.Minute
	}
	if s := os.Getenv("VERIF_C12_MERGED_DEPTH"); s != "" {
		var a, b int
		if n, _ := fmt.Sscanf(s, "%d,%d", &a, &b); n == 2 {
			deepDepth, coreDepth = a, b
		}
	}
	// states up to this depth are judged by the unmerged enumeration; the
	// merged search hands deeper ones to the oracle (0 in a merged-only run,
	// which is how the merged search is validated against seeded changes)
	judgedDepth := maxLen
	if os.Getenv("VERIF_C12_ONLY_MERGED") != "" {
		judgedDepth = 0
	}
	full := alphabetFor(tier)
	inits := make([]*refwriter.File, len(initialFiles))
	for i := range initialFiles {
		inits[i] = initialModel(i)
	}
	// simplest first: by history length, then by initial file, then in
	// alphabet order. Histories are pruned only by applicability in the
	// model (target body / block exists).
	for l := 0; l <= maxLen && os.Getenv("VERIF_C12_ONLY_MERGED") == ""; l++ {
		// histories of length 4 are built from the core alphabet only (every
		// prefix of such a history is among the length-3 histories)
		candidates := full
		if l >= 4 {
			candidates = alphabetQuick
		}
		for i := range inits {
			ops := make([]Op, 0, l)
			var rec func(m *refwriter.File, n int) bool
			rec = func(m *refwriter.File, n int) bool {
				if n == 0 {
					if !emit(mkCase(i, false, ops)) {
						return false
					}
					if scratchVariant(ops) {
						return emit(mkCase(i, true, ops))
					}
					return true
				}
				for _, op := range candidates {
					if !prepare(m, op).ok {
						continue
					}
					next := m
					if n > 1 {
						next = m.Clone()
						mutate(next, prepare(next, op), op)
					}
					ops = append(ops, op)
					ok := rec(next, n-1)
					ops = ops[:len(ops)-1]
					if !ok {
						return false
					}
				}
				return true
			}
			if !rec(inits[i], l) {
				return
			}
		}
	}
	// beyond that depth: breadth-first search with state merging over the
	// core alphabet (merged.go)
	if deepDepth > maxLen {
		dl := engine.RunDeadline
		if deepShare > 0 && time.Now().Add(deepShare).Before(dl) {
			dl = time.Now().Add(deepShare)
		}
		if !genMerged("deep", alphabetDeep, deepDepth, judgedDepth, dl, emit) {
			return
		}
	}
	if coreDepth > maxLen {
		genMerged("core", alphabetQuick, coreDepth, judgedDepth, engine.RunDeadline, emit)
	}
}

// scratchBuffer names the caller's scratch buffer an operation builds its
// slice argument in ("" if it passes no slice with elements): Tokens for
// SetAttributeRaw, []string for block labels, hcl.Traversal for
// SetAttributeTraversal. (AppendUnstructuredTokens is not among them: it has
// no documentation at all, so who owns its argument afterwards is not stated.)
func scratchBuffer(op Op) string {
	switch op.K {
	case "setraw", "copyraw", "copyroot":
		return "tokens"
	case "settrav":
		return "traversal"
	case "newblk", "appblk", "setlabels":
		if len(op.L) > 0 {
			return "labels"
		}
	}
	return ""
}

// scratchVariant says whether the scratch-buffer variant of a history is part
// of the space: every history of length <= 2 with at least one slice argument,
// and every longer history in which at least two operations draw on the same
// scratch buffer (in all other histories the buffer is never reused; what the
// scrubbing after a call does is visible right after the first such call).
func scratchVariant(ops []Op) bool {
	n := map[string]int{}
	for _, o := range ops {
		if b := scratchBuffer(o); b != "" {
			n[b]++
			if n[b] >= 2 || len(ops) <= 2 {
				return true
			}
		}
	}
	return false
}

func shrinkHistory(c engine.Case) []engine.Case {
	d := c.Data.(Data)
	var out []engine.Case
	if d.Scratch {
		out = append(out, mkCase(d.Init, false, d.Ops))
	}
	for i := range d.Ops {
		ops := append(append([]Op(nil), d.Ops[:i]...), d.Ops[i+1:]...)
		out = append(out, mkCase(d.Init, d.Scratch, ops))
	}
	if d.Init != 0 {
		out = append(out, mkCase(0, d.Scratch, d.Ops))
	}
	return out
}

func main() {
	// allocation-heavy, memory is not a concern: trade heap for GC time
	debug.SetGCPercent(800)
	engine.Main(&engine.Check{
		ID:        "C12",
		Title:     "Any sequence of writer-API edits leaves a valid file that matches the edits",
		Technique: "explicit-state exploration of all bounded operation histories on the real hclwrite objects (unmerged to depth 3, breadth-first with heap-isomorphism state merging beyond), compared after every step with a map/list reference model",
		Rule: fmt.Sprintf("all sequences of <= 3 operations over a core alphabet of %d edit operations (quick) / over the full alphabet of %d operations (thorough), without state merging; beyond depth 3 a breadth-first search WITH state merging "+
			"(state key = canonical form, up to address values and with all aliasing, of the private object graph of the real file + the caller's values + the complete model state + the model-to-real block binding; every transition is executed on fresh real objects and checked for panics and documented return values, every state not seen before gets the complete oracle) "+
			"over a 21-operation sub-alphabet of node-replacing/detaching/appending operations to depth 5 (quick) / 7 (thorough) and over the core alphabet to depth 5 as far as the time allows (thorough); per-level frontier, transitions and new states are in merged_search_levels. Operations: "+
			"(SetAttributeValue/Raw/Traversal, SetAttributeRaw with the tokens of another attribute's expression (same body / root body), RenameAttribute, RemoveAttribute, AppendNewBlock, AppendBlock of a new / pre-populated / previously removed block, RemoveBlock of block #i or of a foreign block, "+
			"Block.SetType, Block.SetLabels, AppendNewline, AppendUnstructuredTokens; names a,b,c; values 1,true,\"s\",list; raw tokens x.y, 1+2, 7, null, \"q\"; labels [],[l],[l,m],[x y]; every Tokens value is made once per history and passed again to every operation with the same raw id, so attributes share *Token objects; "+
			"caller-side steps caller-overwrite(id) / caller-refill(id): element 0 of the caller's Tokens value id is overwritten with another token / the value is truncated and refilled with one other token, offered once that value has been handed to a SetAttributeRaw, a later SetAttributeRaw with the id passes the value as it is then) "+
			"on the root body, the bodies of root blocks #0 and #1 and the first body nested in #0, from each of %d initial files (empty, generated via the API, parsed files with lead/line comments, blank lines, nested labelled block, one-line block, missing final newline, "+
			"items with a #/'//' line comment directly followed by comment lines at three depths). "+
			"Every history of length <= 2 with a slice argument, and every longer history in which at least two operations pass the same kind of slice argument (Tokens of SetAttributeRaw; labels of AppendNewBlock/NewBlock/SetLabels; traversal of SetAttributeTraversal), is additionally run in its scratch-buffer variant (+scratch): the caller builds each such argument in one reused buffer per kind (buf = append(buf[:0], ...), BuildTokens(buf[:0])) and overwrites all its elements with placeholders as soon as the call has returned. "+
			"The model (the writer owns what it was given at the time of the call) is the same for both variants. "+
			"An operation is offered only where its target (and source attribute) exists in the model. Every history (in the merged search: the first history reaching a state) is replayed from scratch on a fresh file. "+
			"The complete oracle (parses; items = model; untouched items keep their text; per body, every comment of the initial file not attached to a removed item is still there, in order) judges the final state of every history (the space is prefix-closed, so that is every reachable state); intermediate steps are checked for panics, documented results and accessor agreement. "+
			"Distinct = distinct (final model state, final serialised bytes).", len(alphabetQuick), len(alphabetThorough), len(initialFiles)),
		Assumptions: []string{
			"hclsyntax.ParseConfig/LexConfig are trusted to read the serialised output back (attribute names, expression ranges, block types/labels, token boundaries)",
			"go-cty evaluation of literal expressions is trusted for the semantic fallback comparison of generated values",
			"merged search: equal state keys have equal futures provided hclwrite does not depend on address values, on map iteration order or on slice elements beyond len (the part of the heap that is not in the key)",
			"return values of SetAttributeValue/Raw/Traversal are not asserted (they are results of an edit, not read accessors; see FINDINGS.md note)",
		},
		Gen:    gen,
		Judge:  judge,
		Load:   engine.LoadAs[Data],
		Shrink: shrinkHistory,
		States: func() (int64, int64, int64) {
			return states.Len(), transitions.Load(), traces.Load()
		},
		Extra: func() map[string]any {
			m := map[string]any{"alphabet_size_quick": len(alphabetQuick), "alphabet_size_thorough": len(alphabetThorough), "initial_files": len(initialFiles)}
			for k, v := range counters.Snapshot() {
				m[k] = v
			}
			mergedMu.Lock()
			m["merged_search_levels"] = append([]mergedStats(nil), mergedLevels...)
			mergedMu.Unlock()
			m["merged_search_distinct_states"] = mergedSeenSize.Load()
			return m
		},
		QuickBudget:    6 * time.Minute,
		ThoroughBudget: 60 * time.Minute,
	})
}
