package main

import (
	"fmt"
	"hash/fnv"
	"sort"
	"strings"
	"sync"
	"sync/atomic"

	"github.com/hashicorp/hcl/v2"
	"github.com/hashicorp/hcl/v2/hclsyntax"
	"github.com/hashicorp/hcl/v2/hclwrite"
	"github.com/zclconf/go-cty/cty"
	"github.com/zclconf/go-cty/cty/convert"

	"verif/engine"
	"verif/ref/refwriter"
)

// ---------------------------------------------------------------------------
// Argument domains

var values = map[string]struct {
	v    cty.Value
	text string // canonical source text, whitespace removed
}{
	"1": {cty.NumberIntVal(1), `1`},
	"s": {cty.StringVal("s"), `"s"`},
	"l": {cty.ListVal([]cty.Value{cty.StringVal("p"), cty.StringVal("q")}), `["p","q"]`},
	"t": {cty.True, `true`},
}

// callerTokens are the Tokens values the caller of the API holds during one
// history: one value per raw token id and one for the unstructured comment,
// made when first needed and then passed again to every later operation that
// uses the same id. hclwrite does not say that a Tokens value may be handed
// over only once (SetAttributeRaw / AppendUnstructuredTokens take the slice,
// the *Token elements stay shared with the caller), so attributes given the
// same Tokens value are as independent of each other as any two attributes.
//
// The values stay the caller's: it may overwrite their elements or truncate
// and refill them between calls (caller-overwrite / caller-refill). What an
// attribute was given at the time of a call is the attribute's (NewExpressionRaw:
// "later mutations by the caller" must not change the expression).
//
// In the scratch-buffer variant of a history the caller hands over none of
// its values directly: every slice argument is built in a reused buffer
// (tokens, labels, traversal) that is scrubbed when the call has returned.
type callerTokens struct {
	vals    map[string]hclwrite.Tokens
	scratch bool
	tokBuf  hclwrite.Tokens
	lblBuf  []string
	travBuf hcl.Traversal
}

func newCaller(scratch bool) *callerTokens {
	return &callerTokens{
		vals:    map[string]hclwrite.Tokens{},
		scratch: scratch,
		// sufficient capacity for every argument of the alphabet, so that the
		// buffers are really reused and never reallocated
		tokBuf:  make(hclwrite.Tokens, 0, 32),
		lblBuf:  make([]string, 0, 8),
		travBuf: make(hcl.Traversal, 0, 8),
	}
}

func (ct *callerTokens) get(id string, mk func(string) hclwrite.Tokens) hclwrite.Tokens {
	if t, ok := ct.vals[id]; ok {
		return t
	}
	t := mk(id)
	ct.vals[id] = t
	return t
}

// Placeholders the caller writes over its own slices.
const (
	overwriteText = "z"    // caller-overwrite: element 0 becomes the identifier z
	refillText    = "null" // caller-refill: the slice becomes the one token null
	scrubText     = "zz"   // scratch buffers after a call
)

func identToken(s string) *hclwrite.Token {
	return &hclwrite.Token{Type: hclsyntax.TokenIdent, Bytes: []byte(s)}
}

// tokensArg returns the Tokens argument for a call and what the caller does
// with its buffer once the call has returned.
func (ct *callerTokens) tokensArg(src hclwrite.Tokens) (arg hclwrite.Tokens, after func()) {
	if !ct.scratch {
		return src, func() {}
	}
	ct.tokBuf = append(ct.tokBuf[:0], src...)
	return ct.tokBuf, func() {
		for i := range ct.tokBuf {
			ct.tokBuf[i] = identToken(scrubText)
		}
	}
}

// exprTokensArg is tokensArg for the tokens of an existing expression: in the
// scratch variant they are built straight into the buffer (BuildTokens appends
// to the slice it is given).
func (ct *callerTokens) exprTokensArg(x *hclwrite.Expression) (arg hclwrite.Tokens, after func()) {
	if !ct.scratch {
		return x.BuildTokens(nil), func() {}
	}
	ct.tokBuf = x.BuildTokens(ct.tokBuf[:0])
	return ct.tokBuf, func() {
		for i := range ct.tokBuf {
			ct.tokBuf[i] = identToken(scrubText)
		}
	}
}

func (ct *callerTokens) labelsArg(src []string) (arg []string, after func()) {
	if !ct.scratch || len(src) == 0 {
		return src, func() {}
	}
	ct.lblBuf = append(ct.lblBuf[:0], src...)
	return ct.lblBuf, func() {
		for i := range ct.lblBuf {
			ct.lblBuf[i] = scrubText
		}
	}
}

func (ct *callerTokens) traversalArg(src hcl.Traversal) (arg hcl.Traversal, after func()) {
	if !ct.scratch {
		return src, func() {}
	}
	ct.travBuf = append(ct.travBuf[:0], src...)
	return ct.travBuf, func() {
		for i := range ct.travBuf {
			if i == 0 {
				ct.travBuf[i] = hcl.TraverseRoot{Name: scrubText}
			} else {
				ct.travBuf[i] = hcl.TraverseAttr{Name: scrubText}
			}
		}
	}
}

// rawTexts are the token texts of the caller's value id as first made.
func rawTexts(id string) []string {
	var out []string
	for _, t := range rawTokens(id) {
		out = append(out, string(t.Bytes))
	}
	return out
}

func rawTokens(id string) hclwrite.Tokens {
	switch id {
	case "7":
		return hclwrite.Tokens{{Type: hclsyntax.TokenNumberLit, Bytes: []byte("7")}}
	case "null":
		return hclwrite.Tokens{{Type: hclsyntax.TokenIdent, Bytes: []byte("null")}}
	case `"q"`:
		return hclwrite.Tokens{
			{Type: hclsyntax.TokenOQuote, Bytes: []byte(`"`)},
			{Type: hclsyntax.TokenQuotedLit, Bytes: []byte("q")},
			{Type: hclsyntax.TokenCQuote, Bytes: []byte(`"`)},
		}
	case "x.y":
		return hclwrite.Tokens{
			{Type: hclsyntax.TokenIdent, Bytes: []byte("x")},
			{Type: hclsyntax.TokenDot, Bytes: []byte(".")},
			{Type: hclsyntax.TokenIdent, Bytes: []byte("y")},
		}
	case "1+2":
		return hclwrite.Tokens{
			{Type: hclsyntax.TokenNumberLit, Bytes: []byte("1")},
			{Type: hclsyntax.TokenPlus, Bytes: []byte("+")},
			{Type: hclsyntax.TokenNumberLit, Bytes: []byte("2")},
		}
	}
	panic("unknown raw token id " + id)
}

func traversalVW() hcl.Traversal {
	return hcl.Traversal{hcl.TraverseRoot{Name: "v"}, hcl.TraverseAttr{Name: "w"}}
}

func unstructuredComment(string) hclwrite.Tokens {
	return hclwrite.Tokens{{Type: hclsyntax.TokenComment, Bytes: []byte("# u\n")}}
}

// ---------------------------------------------------------------------------
// Initial files. src is what the file must serialise to initially (for parsed
// files: the text that is parsed); build constructs the real file.

type initialFile struct {
	name  string
	src   string
	build func() *hclwrite.File
}

func parsed(src string) func() *hclwrite.File {
	return func() *hclwrite.File {
		f, diags := hclwrite.ParseConfig([]byte(src), "in.hcl", hcl.InitialPos)
		if diags.HasErrors() {
			panic("hclwrite.ParseConfig rejects initial file: " + diags.Error())
		}
		return f
	}
}

const srcGenerated = `a = 1
b = "s"
blk "l" {
  a = 1
  nested {
    b = 1
  }
}

other {
}
`

const srcComments = `# lead a
a = 1 # line a

b = [1, 2]

# lead blk
blk "l" "m" {
  # inner lead
  a = x.y # inner line
  nested l {
    b = 2
  }

  b = "s"
}

one { a = 1 }
`

const srcComments2 = `// header comment

blk {
}
# lead other
other "l" {
  a = 1
  b = 2 // line b
}
a = v.w
/* trailing */
`

const srcNoEOL = "b = 2\n# lead a\na = 1"

// files without a final newline whose last token is a comment
const srcNoEOLInline = "b = 2\na = 1 /* c */"
const srcNoEOLLine = "b = 2\na = 1 # c"
const srcNoEOLOwn = "a = 1\nblk {\n  b = 2\n}\n// tail"

// Items with a `#` / `//` comment on their line that are directly followed by
// comment lines: the lead comment of the next item, a free-standing comment
// before a blank line, a free-standing comment at the end of a body / of the
// file; at top level and at two nesting depths. Every such item can be removed
// by an operation of the alphabet. All comment texts of a file are different.
const srcCommentRuns = `a = 1 # line a
# lead b
b = 2 // line b
// free root

blk "l" {
  a = 1 // in line a
  // in lead blk
  blk {
    b = 1 # deep line b
    # deep free

    c = 2 // deep line c
    // deep free end
  } # in line blk
  # in free

  c = 3 # in line c
  # in free end
} # line blk
# lead other
other {
  a = 1 // other line a
  // other free end
} // line other
// lead c
c = 3 # line c
# free end
`

// a file whose last item is a block (with a bare, unquoted label) and that has no final newline
const srcNoEOLBlock = "a = 1\nblk l {\n  b = 2\n}"

var initialFiles = []initialFile{
	{name: "empty", src: "", build: hclwrite.NewEmptyFile},
	{name: "generated", src: srcGenerated, build: func() *hclwrite.File {
		f := hclwrite.NewEmptyFile()
		r := f.Body()
		r.SetAttributeValue("a", cty.NumberIntVal(1))
		r.SetAttributeValue("b", cty.StringVal("s"))
		blk := r.AppendNewBlock("blk", []string{"l"})
		blk.Body().SetAttributeValue("a", cty.NumberIntVal(1))
		n := blk.Body().AppendNewBlock("nested", nil)
		n.Body().SetAttributeValue("b", cty.NumberIntVal(1))
		r.AppendNewline()
		r.AppendNewBlock("other", nil)
		return f
	}},
	{name: "comments", src: srcComments, build: parsed(srcComments)},
	{name: "comments2", src: srcComments2, build: parsed(srcComments2)},
	{name: "noeol", src: srcNoEOL, build: parsed(srcNoEOL)},
	{name: "noeol-inline-comment", src: srcNoEOLInline, build: parsed(srcNoEOLInline)},
	{name: "noeol-line-comment", src: srcNoEOLLine, build: parsed(srcNoEOLLine)},
	{name: "noeol-own-comment", src: srcNoEOLOwn, build: parsed(srcNoEOLOwn)},
	{name: "comment-runs", src: srcCommentRuns, build: parsed(srcCommentRuns)},
	{name: "noeol-block-bare-label", src: srcNoEOLBlock, build: parsed(srcNoEOLBlock)},
}

// ---------------------------------------------------------------------------
// Bookkeeping shared by all workers

type stateSet struct {
	shards [256]struct {
		mu sync.Mutex
		m  map[uint64]struct{}
	}
}

func (s *stateSet) Add(model string, out []byte) {
	h := fnv.New64a()
	h.Write([]byte(model))
	h.Write([]byte{0})
	h.Write(out)
	k := h.Sum64()
	sh := &s.shards[k&255]
	sh.mu.Lock()
	if sh.m == nil {
		sh.m = map[uint64]struct{}{}
	}
	sh.m[k] = struct{}{}
	sh.mu.Unlock()
}

func (s *stateSet) Len() int64 {
	var n int64
	for i := range s.shards {
		s.shards[i].mu.Lock()
		n += int64(len(s.shards[i].m))
		s.shards[i].mu.Unlock()
	}
	return n
}

var (
	states      stateSet
	transitions atomic.Int64
	traces      atomic.Int64
	counters    engine.Counter
)

// ---------------------------------------------------------------------------
// Running the real code

// call runs fn and converts a panic into a description.
func call(fn func()) (panicked string) {
	defer func() {
		if r := recover(); r != nil {
			panicked = fmt.Sprint(r)
		}
	}()
	fn()
	return ""
}

func handle(it *refwriter.Item) *hclwrite.Block {
	b, _ := it.Handle.(*hclwrite.Block)
	return b
}

// realResult is what the real operation returned.
type realResult struct {
	retBool *bool
	retNil  *bool
	newBlk  *hclwrite.Block
}

// execReal performs op on the real file. p was prepared on the model state
// *before* the operation; the real objects are reached through the handles
// stored in the model items.
func execReal(f *hclwrite.File, ct *callerTokens, p prep, op Op) realResult {
	var r realResult
	rb := f.Body()
	if n := len(p.chain); n > 0 {
		rb = handle(p.chain[n-1]).Body()
	}
	switch op.K {
	case "setv":
		rb.SetAttributeValue(op.N, values[op.V].v)
	case "setraw":
		arg, after := ct.tokensArg(ct.get(op.V, rawTokens))
		rb.SetAttributeRaw(op.N, arg)
		after()
	case "copyraw":
		// the expression of another attribute of the same body, copied the
		// way the API offers it: by its tokens
		arg, after := ct.exprTokensArg(rb.GetAttribute(op.N2).Expr())
		rb.SetAttributeRaw(op.N, arg)
		after()
	case "copyroot":
		// the same with an attribute of the root body as the source
		arg, after := ct.exprTokensArg(f.Body().GetAttribute(op.N2).Expr())
		rb.SetAttributeRaw(op.N, arg)
		after()
	case "settrav":
		arg, after := ct.traversalArg(traversalVW())
		rb.SetAttributeTraversal(op.N, arg)
		after()
	case "caller-overwrite":
		// the caller assigns to element 0 of its own slice (a new *Token; the
		// token object that was there is not changed)
		ct.vals[op.V][0] = identToken(overwriteText)
	case "caller-refill":
		// s = append(s[:0], tok): same backing array, new contents and length
		ct.vals[op.V] = append(ct.vals[op.V][:0], identToken(refillText))
	case "ren":
		r.retBool = bp(rb.RenameAttribute(op.N, op.N2))
	case "rm":
		r.retNil = bp(rb.RemoveAttribute(op.N) == nil)
	case "newblk":
		arg, after := ct.labelsArg(op.L)
		r.newBlk = rb.AppendNewBlock(op.Ty, arg)
		after()
	case "appblk":
		arg, after := ct.labelsArg(op.L)
		nb := hclwrite.NewBlock(op.Ty, arg)
		after()
		if op.A {
			nb.Body().SetAttributeValue("a", values["1"].v)
		}
		rb.AppendBlock(nb)
		r.newBlk = nb
	case "rmblk":
		r.retBool = bp(rb.RemoveBlock(handle(p.blk)))
	case "rmforeign":
		// a block that is not an item of this body but looks exactly like its
		// first block (if any)
		ty, ls := "blk", []string(nil)
		if bl := p.body.Blocks(); len(bl) > 0 {
			ty, ls = bl[0].Type, bl[0].Labels
		}
		r.retBool = bp(rb.RemoveBlock(hclwrite.NewBlock(ty, ls)))
	case "reappend":
		rb.AppendBlock(handle(p.blk))
	case "settype":
		handle(p.blk).SetType(op.Ty)
	case "setlabels":
		arg, after := ct.labelsArg(op.L)
		handle(p.blk).SetLabels(arg)
		after()
	case "nl":
		rb.AppendNewline()
	case "unstruct":
		rb.AppendUnstructuredTokens(ct.get("#u", unstructuredComment))
	}
	return r
}

// ---------------------------------------------------------------------------
// Oracle

type failure struct {
	clause string // which clause of the oracle
	msg    string
	item   *refwriter.Item // the model item the clause was applied to, where there is one
}

func failf(clause, format string, a ...any) *failure {
	return &failure{clause: clause, msg: fmt.Sprintf(format, a...)}
}

// exprMatches compares expression text (whitespace removed) with the model.
// Generated values and traversals get a semantic second chance so that a
// harmless change of how hclwrite spells a literal is not an alarm.
func exprMatches(text string, it *refwriter.Item) bool {
	if text == it.Expr {
		return true
	}
	switch {
	case strings.HasPrefix(it.Tag, "v:"):
		want := values[strings.TrimPrefix(it.Tag, "v:")].v
		e, diags := hclsyntax.ParseExpression([]byte(text), "e.hcl", hcl.InitialPos)
		if diags.HasErrors() {
			return false
		}
		got, diags := e.Value(nil)
		if diags.HasErrors() {
			return false
		}
		conv, err := convert.Convert(got, want.Type())
		return err == nil && conv.RawEquals(want)
	case it.Tag == "trav":
		e, diags := hclsyntax.ParseExpression([]byte(text), "e.hcl", hcl.InitialPos)
		if diags.HasErrors() {
			return false
		}
		tr, diags := hcl.AbsTraversalForExpr(e)
		if diags.HasErrors() || len(tr) != 2 || tr.RootName() != "v" {
			return false
		}
		at, ok := tr[1].(hcl.TraverseAttr)
		return ok && at.Name == "w"
	}
	return false
}

func describeItems(b *refwriter.Body) string { return b.String() }

// diffBody compares what was read back from the serialised bytes (got) with
// the model (want), in order, recursively.
func diffBody(want, got *refwriter.Body, where string) *failure {
	if len(want.Items) != len(got.Items) {
		return failf("items", "%s: serialised file has items %s, model predicts %s", where, describeItems(got), describeItems(want))
	}
	for i, w := range want.Items {
		g := got.Items[i]
		if w.Block != g.Block {
			return failf("items", "%s item %d: serialised file has %s, model predicts %s", where, i, describeItems(got), describeItems(want))
		}
		if !w.Block {
			if w.Name != g.Name {
				return failf("items", "%s item %d: attribute is named %q, model predicts %q (file %s, model %s)", where, i, g.Name, w.Name, describeItems(got), describeItems(want))
			}
			if !exprMatches(g.Expr, w) {
				fl := failf("expr", "%s attribute %q: expression text %q, model predicts %q", where, w.Name, g.Expr, w.Expr)
				fl.item = w
				return fl
			}
		} else {
			if w.Type != g.Type {
				return failf("block-type", "%s block %d: type %q, model predicts %q", where, i, g.Type, w.Type)
			}
			if !sameStrings(w.Labels, g.Labels) {
				return failf("block-labels", "%s block %d (%s): labels %q, model predicts %q", where, i, w.Type, g.Labels, w.Labels)
			}
			if fl := diffBody(w.Body, g.Body, where+"/"+w.Type); fl != nil {
				return fl
			}
		}
		if w.Orig != "" && !w.Touched {
			same := g.Orig == w.Orig
			if w.NoEOL {
				// the item's line had no terminator in the initial file, so
				// whatever was appended later may share its line
				same = strings.HasPrefix(g.Orig, w.Orig)
			}
			if !same {
				name := w.Name
				if w.Block {
					name = "block " + w.Type
				}
				return failf("untouched", "%s %s was never targeted by an edit but its tokens/comments changed: now %q, originally %q (spaces removed)", where, name, g.Orig, w.Orig)
			}
		}
	}
	return nil
}

// diffComments applies the comment clause to a serialised file whose items
// already agree with the model: per body, the comments of the initial file
// that are still due (refwriter.Body.Comments: all but those attached to an
// item that was removed since) occur in the body, in their original order.
// Other comments may occur between them (comments of removed items that the
// implementation chose to keep, appended unstructured comments).
func diffComments(want, got *refwriter.Body, where string) *failure {
	due, have := want.Comments(), got.Comments()
	is := func(h, c refwriter.Comment) bool {
		// a comment without a line terminator at the very end of the initial
		// file may have been continued by what was appended to the file
		return h.Text == c.Text || (c.Open && strings.HasPrefix(h.Text, c.Text))
	}
	j := 0
	for _, c := range due {
		for j < len(have) && !is(have[j], c) {
			j++
		}
		if j < len(have) {
			j++
			continue
		}
		var texts []string
		present := false
		for _, h := range have {
			texts = append(texts, h.Text)
			present = present || is(h, c)
		}
		what := "free-standing comment"
		if c.Kind != "free" {
			what = c.Kind + " comment of " + c.Of + " (which is still there)"
		}
		if present {
			return failf("comment-order", "%s: %s %q of the initial file no longer follows the comments it followed initially: the body now has the comments %q", where, what, c.Text, texts)
		}
		clause := c.Kind + "-comment-lost"
		return failf(clause, "%s: %s %q of the initial file is gone although nothing it belongs to was removed: the body now has the comments %q", where, what, c.Text, texts)
	}
	wb, gb := want.Blocks(), got.Blocks()
	for i := range wb {
		if i >= len(gb) {
			break
		}
		if fl := diffComments(wb[i].Body, gb[i].Body, where+"/"+wb[i].Type); fl != nil {
			return fl
		}
	}
	return nil
}

func sameStrings(a, b []string) bool {
	if len(a) != len(b) {
		return false
	}
	for i := range a {
		if a[i] != b[i] {
			return false
		}
	}
	return true
}

var probeTypes = []string{"blk", "other", "nested", "one"}
var probeLabels = [][]string{nil, {"l"}, {"l", "m"}}
var probeNames = []string{"a", "b", "c"}

// accessors compares the read accessors of a real body with the model,
// recursively. The FirstMatchingBlock probes are made only when probes is set
// (final state of a history, or every step when a failure is being attributed). It also (re)binds the handles of the model's block items when
// bind is set (initial state only).
func accessors(rb *hclwrite.Body, mb *refwriter.Body, where string, bind, probes bool) *failure {
	// Attributes(): key set
	attrs := rb.Attributes()
	var gotNames []string
	for n := range attrs {
		gotNames = append(gotNames, n)
	}
	sort.Strings(gotNames)
	wantNames := append([]string(nil), mb.AttrNames()...)
	sort.Strings(wantNames)
	if !sameStrings(gotNames, wantNames) {
		return failf("attributes", "%s: Attributes() has keys %q, model predicts %q", where, gotNames, wantNames)
	}
	// GetAttribute(n) nil-ness and the expression it exposes
	names := append(append([]string(nil), probeNames...), wantNames...)
	for _, n := range names {
		ga := rb.GetAttribute(n)
		ma := mb.Attr(n)
		if (ga == nil) != (ma == nil) {
			return failf("getattribute", "%s: GetAttribute(%q) nil=%v, model says present=%v", where, n, ga == nil, ma != nil)
		}
		if ga == nil {
			continue
		}
		if attrs[n] == nil {
			return failf("attributes", "%s: Attributes()[%q] is nil", where, n)
		}
		x := ga.Expr()
		if x == nil {
			return failf("attr-expr", "%s: GetAttribute(%q).Expr() is nil", where, n)
		}
		text := stripWS(x.BuildTokens(nil).Bytes())
		if !exprMatches(text, ma) {
			return failf("attr-expr", "%s: GetAttribute(%q).Expr() has tokens %q, model predicts %q", where, n, text, ma.Expr)
		}
	}
	// Blocks(): length, order, identity, Type(), Labels()
	blocks := rb.Blocks()
	mblocks := mb.Blocks()
	if len(blocks) != len(mblocks) {
		return failf("blocks", "%s: Blocks() has %d blocks, model predicts %d (%s)", where, len(blocks), len(mblocks), mb)
	}
	for i, b := range blocks {
		m := mblocks[i]
		if b == nil {
			return failf("blocks", "%s: Blocks()[%d] is nil", where, i)
		}
		if bind {
			m.Handle = b
		} else if handle(m) != b {
			return failf("blocks", "%s: Blocks()[%d] is not the block object that was appended/loaded at that position (model %s)", where, i, mb)
		}
		if t := b.Type(); t != m.Type {
			if m.TypeSets > 0 {
				return failf("type-after-settype", "%s: Blocks()[%d].Type() = %q after SetType; model (and the serialised file) say %q", where, i, t, m.Type)
			}
			return failf("type", "%s: Blocks()[%d].Type() = %q, model predicts %q", where, i, t, m.Type)
		}
		if ls := b.Labels(); !sameStrings(ls, m.Labels) {
			return failf("labels", "%s: Blocks()[%d].Labels() = %q, model predicts %q", where, i, ls, m.Labels)
		}
	}
	// FirstMatchingBlock
	for _, ty := range probeTypes {
		if !probes {
			break
		}
		for _, ls := range probeLabels {
			got := rb.FirstMatchingBlock(ty, ls)
			want := mb.FirstMatching(ty, ls)
			if (got == nil) != (want == nil) || (want != nil && handle(want) != got) {
				return failf("firstmatchingblock", "%s: FirstMatchingBlock(%q, %q) nil=%v, model predicts present=%v (or a different block; model %s)", where, ty, ls, got == nil, want != nil, mb)
			}
		}
	}
	for i, b := range blocks {
		nb := b.Body()
		if nb == nil {
			return failf("block-body", "%s: Blocks()[%d].Body() is nil", where, i)
		}
		if fl := accessors(nb, mblocks[i].Body, where+"/"+mblocks[i].Type, bind, probes); fl != nil {
			return fl
		}
	}
	return nil
}

// checkAccessors applies the accessor clause (and binds the handles of the
// initial blocks when bind is set).
func checkAccessors(f *hclwrite.File, m *refwriter.File, bind, probes bool) (fl *failure) {
	if p := call(func() { fl = accessors(f.Body(), m.Root, "root", bind, probes) }); p != "" {
		return failf("panic-accessor", "a read accessor panics: %s", p)
	}
	return fl
}

// checkOutput applies the clauses about the serialised file: it parses, its
// content equals the model, untouched items kept their text, the comments of
// the initial file are still there unless their item was removed.
func checkOutput(f *hclwrite.File, m *refwriter.File) (out []byte, fl *failure) {
	if p := call(func() { out = f.Bytes() }); p != "" {
		return nil, failf("panic-bytes", "File.Bytes() panics: %s", p)
	}
	got, diags := fromSource(out)
	if diags.HasErrors() {
		return out, failf("unparseable", "serialised file does not parse: %s\n--- output\n%s", diags.Error(), out)
	}
	dfl := diffBody(m.Root, got, "root")
	if dfl == nil {
		dfl = diffComments(m.Root, got, "root")
	}
	if dfl != nil {
		dfl.msg += fmt.Sprintf("\n--- output\n%s", out)
		return out, dfl
	}
	return out, nil
}

// class names the failing construct and condition: the kind of the operation
// that was just performed and the oracle clause that failed (for the two
// expression clauses also whether the attribute is the operation's own). Three narrow
// classes are carved out for conditions described in FINDINGS.md.
func class(op Op, p prep, fl *failure, scratch bool) string {
	if scratch {
		// fails only when the caller reuses / scrubs its argument buffers (judge
		// takes the plain variant's verdict and class when that fails too, so
		// the carved-out classes below never apply here)
		return "c12.scratch-buffer." + strings.TrimPrefix(classOf(op, p, fl, false), "c12.")
	}
	return classOf(op, p, fl, true)
}

func classOf(op Op, p prep, fl *failure, carved bool) string {
	switch {
	case carved && fl.clause == "unparseable" && p.hazard == "oneline":
		return "c12.append-into-oneline-block-unparseable"
	case carved && fl.clause == "unparseable" && p.hazard == "noeol":
		return "c12.append-after-unterminated-last-item-unparseable"
	case carved && fl.clause == "type-after-settype":
		return "c12.settype-stale-type-accessor"
	case carved && fl.clause == "panic-op" && op.K == "settype" && p.blk != nil && p.blk.TypeSets > 0:
		return "c12.settype-second-call-panics"
	case (fl.clause == "expr" || fl.clause == "attr-expr") && fl.item != nil && p.body != nil && fl.item != p.body.Attr(op.N) && (op.K != "ren" || fl.item != p.body.Attr(op.N2)):
		// the expression of an attribute other than the one the operation
		// was asked to set / rename / remove is wrong
		return "c12." + op.K + ".other-attribute-" + fl.clause
	}
	return "c12." + op.K + "." + fl.clause
}

var (
	initOnce   sync.Once
	initModels []*refwriter.File
)

// initialModel returns a fresh copy of the model of initial file i (read from
// its source text with the trusted parser, never through hclwrite).
func initialModel(i int) *refwriter.File {
	initOnce.Do(func() {
		for _, f := range initialFiles {
			body, diags := fromSource([]byte(f.src))
			if diags.HasErrors() {
				panic("initial file " + f.name + " does not parse: " + diags.Error())
			}
			initModels = append(initModels, &refwriter.File{Root: body})
		}
	})
	return initModels[i].Clone()
}

// judge replays one history. The enumeration is prefix-closed (every prefix
// of a history is itself a case), so every reachable state is the final state
// of exactly one case. The complete oracle is applied to the final state of
// each case; on the way there every step is checked for panics, documented
// results and accessor agreement (which keeps the replay honest: a history is
// never continued from a state whose accessors disagree with the model), and
// additionally in full wherever the operation runs into a recorded layout
// hazard. Whenever a history fails it is replayed once more with the complete
// oracle after every step, so that the failure is attributed to the first
// step whose state is wrong (the verdict and class are then exactly those of
// an every-step oracle).
func judge(c engine.Case) engine.Outcome {
	d := c.Data.(Data)
	o := judgeVariant(d)
	if o.V == engine.Viol && d.Scratch {
		// a history that fails without the scratch buffers as well is reported
		// as that failure
		plain := d
		plain.Scratch = false
		if o2 := judgeVariant(plain); o2.V == engine.Viol {
			return o2
		}
	}
	return o
}

func judgeVariant(d Data) engine.Outcome {
	o := replay(d, false)
	if o.V == engine.Viol && len(d.Ops) > 1 {
		if o2 := replay(d, true); o2.V == engine.Viol {
			return o2
		}
	}
	return o
}

func variantNote(d Data) string {
	if d.Scratch {
		return " (scratch-buffer variant: slice arguments are built in reused buffers that the caller scrubs after each call)"
	}
	return ""
}

func replay(d Data, everyStep bool) engine.Outcome {
	if d.Init < 0 || d.Init >= len(initialFiles) {
		return engine.Pass("")
	}
	if !everyStep {
		traces.Add(1)
	}
	init := initialFiles[d.Init]
	var f *hclwrite.File
	if p := call(func() { f = init.build() }); p != "" {
		return engine.Fail("c12.init.panic", "building initial file %s panics: %s", init.name, p)
	}
	m := initialModel(d.Init)
	if fl := checkAccessors(f, m, true, len(d.Ops) == 0 || everyStep); fl != nil {
		return engine.Fail("c12.init."+fl.clause, "initial file %s: %s", init.name, fl.msg)
	}
	ct := newCaller(d.Scratch)
	var out []byte
	if len(d.Ops) == 0 {
		var fl *failure
		if out, fl = checkOutput(f, m); fl != nil {
			return engine.Fail("c12.init."+fl.clause, "initial file %s: %s", init.name, fl.msg)
		}
		states.Add(m.Root.String(), out)
	}

	for i, op := range d.Ops {
		p := prepare(m, op)
		if !p.ok {
			// not part of the enumerated space (only reachable from a hand-made replay file)
			return engine.Pass("")
		}
		hist := func() string {
			var sb strings.Builder
			for j := 0; j <= i; j++ {
				fmt.Fprintf(&sb, "  %d. %s\n", j+1, d.Ops[j])
			}
			return sb.String()
		}
		var rr realResult
		pan := call(func() { rr = execReal(f, ct, p, op) })
		if !everyStep {
			transitions.Add(1)
		}
		if pan != "" {
			fl := failf("panic-op", "operation panics: %s", pan)
			return engine.Fail(class(op, p, fl, d.Scratch), "initial file %s"+variantNote(d)+", history\n%s%s", init.name, hist(), fl.msg)
		}
		res := mutate(m, p, op)
		if res.newBlk != nil {
			if rr.newBlk == nil {
				return engine.Fail("c12."+op.K+".returns-nil-block", "initial file %s"+variantNote(d)+", history\n%sthe operation returned a nil block", init.name, hist())
			}
			res.newBlk.Handle = rr.newBlk
		}
		if res.retBool != nil && (rr.retBool == nil || *rr.retBool != *res.retBool) {
			return engine.Fail("c12."+op.K+".return-value", "initial file %s"+variantNote(d)+", history\n%sthe operation returned %v, its documentation says %v", init.name, hist(), *rr.retBool, *res.retBool)
		}
		if res.retNil != nil && (rr.retNil == nil || *rr.retNil != *res.retNil) {
			return engine.Fail("c12."+op.K+".return-value", "initial file %s"+variantNote(d)+", history\n%sRemoveAttribute returned nil=%v, its documentation says nil=%v", init.name, hist(), *rr.retNil, *res.retNil)
		}
		last := i == len(d.Ops)-1
		var ofl *failure
		if last || everyStep || p.hazard != "" {
			out, ofl = checkOutput(f, m)
			if ofl != nil && (ofl.clause == "panic-bytes" || ofl.clause == "unparseable") {
				return engine.Fail(class(op, p, ofl, d.Scratch), "initial file %s"+variantNote(d)+", history\n%s%s", init.name, hist(), ofl.msg)
			}
		}
		if fl := checkAccessors(f, m, false, last || everyStep); fl != nil && (ofl == nil || fl.clause == "panic-accessor") {
			if out != nil {
				fl.msg += fmt.Sprintf("\n--- output\n%s", out)
			}
			return engine.Fail(class(op, p, fl, d.Scratch), "initial file %s"+variantNote(d)+", history\n%s%s", init.name, hist(), fl.msg)
		}
		if ofl != nil {
			return engine.Fail(class(op, p, ofl, d.Scratch), "initial file %s"+variantNote(d)+", history\n%s%s", init.name, hist(), ofl.msg)
		}
		if last || everyStep {
			states.Add(m.Root.String(), out)
		}
	}
	if !everyStep {
		counters.Add(fmt.Sprintf("histories_len_%d", len(d.Ops)), 1)
	}
	return engine.Pass(m.Root.String() + "\x00" + string(out))
}
