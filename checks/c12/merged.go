package main

// Explicit-state search WITH state merging, beyond the depth the unmerged
// enumeration reaches.
//
// A state is (the private object graph of the real hclwrite.File and of
// everything the caller still holds: its Tokens values, the block it removed
// last) x (the complete model state) x (which real block each model block is
// bound to). Its key is the canonical form of that graph computed by
// verif/engine/heapcanon: equal up to the numeric values of addresses, aliasing
// included (shared *Token objects, slices over one backing array, cached node
// pointers, members of Body.items that are no longer children). Two histories
// that reach the same key have the same future under every operation sequence
// (heapcanon's correctness argument; the model is a deterministic function of
// its own state), so only the first history that reaches a state - the
// shortest, in alphabet order - is continued. The search is breadth-first by
// levels:
//
//	level d+1 = { succ(s, op) : s in level d (first representatives only), op applicable in the model of s }
//
// Every transition is executed on fresh real objects (the representative
// history of s is replayed, then op), the documented return values of op are
// compared with the model on every transition, and the state reached is keyed.
// A state not seen before is handed to the engine as an ordinary history case,
// which applies the complete oracle of judge() to it (parses, items = model,
// accessors, untouched items, comment ledger); so is every transition whose
// fast replay saw a panic or a wrong return value, whether its target state is
// new or not.

import (
	"fmt"
	"os"
	"sort"
	"strconv"
	"strings"
	"sync"
	"sync/atomic"
	"time"

	"github.com/hashicorp/hcl/v2/hclwrite"

	"verif/engine"
	"verif/engine/heapcanon"
	"verif/ref/refwriter"
)

type callerVal struct {
	ID   string
	Toks hclwrite.Tokens
}

func modelCanon(m *refwriter.File, handles *[]*hclwrite.Block) string {
	var sb strings.Builder
	var body func(b *refwriter.Body)
	item := func(it *refwriter.Item) {
		fmt.Fprintf(&sb, "(%v|%q|%q|%q|%q|%q|%q|%v|%v|%d|", it.Block, it.Name, it.Expr, it.Tag, it.Type, it.Labels, it.Orig, it.Touched, it.NoEOL, it.TypeSets)
		for _, c := range it.Comments {
			fmt.Fprintf(&sb, "c%d,", c.Seq)
		}
		if it.Block {
			*handles = append(*handles, handle(it))
			if it.Body != nil {
				body(it.Body)
			} else {
				sb.WriteString("nobody")
			}
		}
		sb.WriteString(")")
	}
	body = func(b *refwriter.Body) {
		fmt.Fprintf(&sb, "{%v|%v|", b.OneLine, b.TailSep)
		for _, c := range b.Free {
			fmt.Fprintf(&sb, "f%d,", c.Seq)
		}
		for _, it := range b.Items {
			item(it)
		}
		sb.WriteString("}")
	}
	body(m.Root)
	sb.WriteString("held:")
	if m.Held != nil {
		item(m.Held)
	}
	sb.WriteString("caller:")
	ids := make([]string, 0, len(m.Caller))
	for id := range m.Caller {
		ids = append(ids, id)
	}
	sort.Strings(ids)
	for _, id := range ids {
		fmt.Fprintf(&sb, "%q=%q;", id, m.Caller[id])
	}
	return sb.String()
}

// fastReplay runs a history on fresh real objects next to the model with the
// transition-level clauses only (no panic, documented return values) and
// returns the key of the state reached. suspicious is set when a clause failed
// (the complete judge then has to look at the history); ok is false when the
// history is not applicable in the model.
func fastReplay(init int, ops []Op) (key heapcanon.Key, suspicious, ok bool) {
	var f *hclwrite.File
	if p := call(func() { f = initialFiles[init].build() }); p != "" {
		return key, true, true
	}
	m := initialModel(init)
	if fl := checkAccessors(f, m, true, false); fl != nil {
		return key, true, true
	}
	ct := newCaller(false)
	for _, op := range ops {
		p := prepare(m, op)
		if !p.ok {
			return key, false, false
		}
		var rr realResult
		if pan := call(func() { rr = execReal(f, ct, p, op) }); pan != "" {
			return key, true, true
		}
		res := mutate(m, p, op)
		if res.newBlk != nil {
			if rr.newBlk == nil {
				return key, true, true
			}
			res.newBlk.Handle = rr.newBlk
		}
		if res.retBool != nil && (rr.retBool == nil || *rr.retBool != *res.retBool) {
			suspicious = true
		}
		if res.retNil != nil && (rr.retNil == nil || *rr.retNil != *res.retNil) {
			suspicious = true
		}
	}
	ids := make([]string, 0, len(ct.vals))
	for id := range ct.vals {
		ids = append(ids, id)
	}
	sort.Strings(ids)
	cv := make([]callerVal, len(ids))
	for i, id := range ids {
		cv[i] = callerVal{id, ct.vals[id]}
	}
	var handles []*hclwrite.Block
	mc := modelCanon(m, &handles)
	return heapcanon.Hash(f, cv, handles, mc), suspicious, true
}

type mstate struct {
	init int32
	ops  []uint8 // indices into the merged search's alphabet
}

type mergedStats struct {
	Alphabet         string `json:"alphabet"`
	Depth            int   `json:"depth"`
	Frontier         int   `json:"frontier_states"`
	Transitions      int64 `json:"transitions"`
	NewStates        int64 `json:"new_states"`
	MergedAway       int64 `json:"transitions_into_known_states"`
	Suspicious       int64 `json:"transitions_sent_to_the_full_oracle_for_a_step_clause"`
	Judged           bool  `json:"new_states_judged_by_full_oracle"`
	Complete         bool  `json:"level_complete"`
	ExpandedFrontier int   `json:"frontier_states_expanded"`
}

var (
	mergedLevels   []mergedStats
	mergedMu       sync.Mutex
	mergedSeenSize atomic.Int64
)

func opsOf(alpha []Op, idx []uint8, extra int) []Op {
	out := make([]Op, 0, len(idx)+1)
	for _, i := range idx {
		out = append(out, alpha[i])
	}
	if extra >= 0 {
		out = append(out, alpha[extra])
	}
	return out
}

// genMerged runs the merged search over alpha from all initial files up to
// maxDepth. States at depth <= judgedDepth are not emitted (the unmerged
// enumeration has judged every history of that length already) unless a
// transition clause failed.
func genMerged(alphaName string, alpha []Op, maxDepth, judgedDepth int, deadline time.Time, emit func(engine.Case) bool) bool {
	if len(alpha) > 255 {
		panic("alphabet too large for the merged search")
	}
	seen := map[heapcanon.Key]struct{}{}
	var frontier []mstate
	for i := range initialFiles {
		k, _, _ := fastReplay(i, nil)
		if _, dup := seen[k]; dup {
			continue
		}
		seen[k] = struct{}{}
		frontier = append(frontier, mstate{init: int32(i)})
	}
	nw := 16
	if s := os.Getenv("VERIF_WORKERS"); s != "" {
		if n, err := strconv.Atoi(s); err == nil && n > 0 {
			nw = n
		}
	}
	type cand struct {
		entry int32
		op    uint8
		susp  bool
		key   heapcanon.Key
	}
	const chunk = 64
	for depth := 1; depth <= maxDepth && len(frontier) > 0; depth++ {
		st := mergedStats{Alphabet: alphaName, Depth: depth, Frontier: len(frontier), Judged: depth > judgedDepth, Complete: true}
		nchunks := (len(frontier) + chunk - 1) / chunk
		results := make([][]cand, nchunks)
		finished := make([]bool, nchunks)
		var trans atomic.Int64
		var nextChunk atomic.Int64
		var stop atomic.Bool
		var wg sync.WaitGroup
		for w := 0; w < nw; w++ {
			wg.Add(1)
			go func() {
				defer wg.Done()
				for {
					ci := int(nextChunk.Add(1)) - 1
					if ci >= nchunks || stop.Load() {
						return
					}
					if time.Now().After(deadline) {
						stop.Store(true)
						return
					}
					lo, hi := ci*chunk, (ci+1)*chunk
					if hi > len(frontier) {
						hi = len(frontier)
					}
					local := map[heapcanon.Key]struct{}{}
					var out []cand
					for e := lo; e < hi; e++ {
						s := frontier[e]
						// model state of the representative, for applicability
						m := initialModel(int(s.init))
						for _, oi := range s.ops {
							mutate(m, prepare(m, alpha[oi]), alpha[oi])
						}
						for oi := range alpha {
							if !prepare(m, alpha[oi]).ok {
								continue
							}
							k, susp, ok := fastReplay(int(s.init), opsOf(alpha, s.ops, oi))
							if !ok {
								continue
							}
							trans.Add(1)
							if !susp {
								if _, dup := seen[k]; dup { // read-only during a level
									continue
								}
								if _, dup := local[k]; dup {
									continue
								}
								local[k] = struct{}{}
							}
							out = append(out, cand{int32(e), uint8(oi), susp, k})
						}
					}
					results[ci] = out
					finished[ci] = true
				}
			}()
		}
		wg.Wait()
		// merge in enumeration order (deterministic whatever the workers' timing)
		var next []mstate
		done := nchunks
		if stop.Load() {
			// the deadline passed: the chunks before the first unfinished one
			// form a completely expanded prefix of the frontier
			st.Complete = false
			for ci := 0; ci < nchunks; ci++ {
				if !finished[ci] {
					done = ci
					break
				}
			}
		}
		st.ExpandedFrontier = done * chunk
		if st.ExpandedFrontier > len(frontier) {
			st.ExpandedFrontier = len(frontier)
		}
		alive := true
		for ci := 0; ci < done && alive; ci++ {
			for _, c := range results[ci] {
				_, dup := seen[c.key]
				if dup && !c.susp {
					continue
				}
				s := frontier[c.entry]
				if !dup {
					seen[c.key] = struct{}{}
					st.NewStates++
					ops := make([]uint8, len(s.ops)+1)
					copy(ops, s.ops)
					ops[len(s.ops)] = c.op
					next = append(next, mstate{init: s.init, ops: ops})
				}
				if c.susp {
					st.Suspicious++
				}
				if depth > judgedDepth || c.susp {
					if !emit(mkCase(int(s.init), false, opsOf(alpha, s.ops, int(c.op)))) {
						alive = false
						st.Complete = false
						break
					}
				}
			}
		}
		st.Transitions = trans.Load()
		st.MergedAway = st.Transitions - st.NewStates
		mergedMu.Lock()
		mergedLevels = append(mergedLevels, st)
		mergedMu.Unlock()
		mergedSeenSize.Store(int64(len(seen)))
		fmt.Fprintf(os.Stderr, "C12 merged search (%s alphabet): depth %d: frontier %d, transitions %d, new states %d, complete=%v\n", alphaName, depth, st.Frontier, st.Transitions, st.NewStates, st.Complete)
		if !alive {
			return false
		}
		if !st.Complete {
			return true
		}
		frontier = next
	}
	return true
}

// alphabetDeep is a small sub-alphabet of the core alphabet for the deepest
// search: the operations that replace, detach and append nodes of the root
// body and of the body of its first block.
var alphabetDeep = func() []Op {
	names := map[string]bool{}
	for _, n := range []string{
		"root.setv(a,1)", "root.setv(b,1)", "root.setraw(a,x.y)", "root.copyraw(c<-a)",
		"root.ren(a,b)", "root.ren(a,c)", "root.ren(c,a)", "root.rm(a)", "root.rm(b)",
		"root.newblk(blk,[])", "root.appblk(blk,[l],+a)", "root.rmblk(#0)", "root.rmblk(#1)", "root.reappend",
		"root.#0.settype(other)", "root.#0.setlabels([l,m])", "root.nl",
		"b0.setv(a,1)", "b0.rm(a)", "b0.newblk(blk,[l])", "b0.rmblk(#0)",
	} {
		names[n] = true
	}
	var out []Op
	for _, o := range alphabetQuick {
		if names[o.name] {
			out = append(out, o)
			delete(names, o.name)
		}
	}
	if len(names) != 0 {
		panic(fmt.Sprint("alphabetDeep: not in the core alphabet: ", names))
	}
	return out
}()
