package main

import (
	"testing"

	"verif/engine"
)

func TestProf(t *testing.T) {
	n := 0
	var cases []engine.Case
	gen("quick", func(c engine.Case) bool {
		n++
		if n%40 == 0 {
			cases = append(cases, c)
		}
		return n < 400000
	})
	t.Logf("generated %d, judging %d", n, len(cases))
	for _, c := range cases {
		judge(c)
	}
}
