package main

import (
	"bytes"
	"sort"
	"strings"

	"github.com/hashicorp/hcl/v2"
	"github.com/hashicorp/hcl/v2/hclsyntax"

	"verif/ref/refwriter"
)

// fromSource reads native-syntax source with the hclsyntax parser and scanner
// (trusted base of this check; hclwrite is the code under test) and turns it
// into the model's tree shape: per body the ordered items with attribute
// names, expression source text modulo whitespace, block types and labels,
// recursively. Every item also gets Orig = the text of the item together with
// its lead comments (whole-line comments directly above it) and its line
// comment, with spaces and tabs removed (found by a plain byte scan, no
// lexer); that is what the "untouched items keep their tokens and comments"
// clause compares.
//
// The comments of the source (TokenComment tokens of the hclsyntax scanner) are
// distributed over the tree as a ledger, see attach.
func fromSource(src []byte) (*refwriter.Body, hcl.Diagnostics) {
	f, diags := hclsyntax.ParseConfig(src, "out.hcl", hcl.InitialPos)
	if diags.HasErrors() {
		return nil, diags
	}
	sr := &srcReader{src: src}
	for i, c := range src {
		if c == '\n' {
			sr.nls = append(sr.nls, i)
		}
	}
	var toks hclsyntax.Tokens
	if bytes.IndexAny(src, "#/") >= 0 { // no comment without one of these
		toks, _ = hclsyntax.LexConfig(src, "out.hcl", hcl.InitialPos)
	}
	for _, t := range toks {
		if t.Type != hclsyntax.TokenComment {
			continue
		}
		c := srcComment{start: t.Range.Start.Byte, end: t.Range.End.Byte}
		// `#` and `//` comment tokens include their line terminator
		for c.end > c.start && (src[c.end-1] == '\n' || src[c.end-1] == '\r') {
			c.end--
		}
		sr.comments = append(sr.comments, c)
	}
	return sr.body(f.Body.(*hclsyntax.Body), 0, len(src)), nil
}

type srcComment struct {
	start, end int // byte range without the line terminator
}

type srcReader struct {
	src      []byte
	nls      []int        // offsets of the newline bytes
	comments []srcComment // in source order
}

// line is the 0-based line of a byte offset (the number of newlines before it).
func (r *srcReader) line(off int) int {
	return sort.SearchInts(r.nls, off)
}

// srcEnt is one item of a body with its byte range [start,end) (attribute:
// name .. end of expression; block: type .. closing brace) and, for a block,
// the range between its braces.
type srcEnt struct {
	item           *refwriter.Item
	start, end     int
	inStart, inEnd int
	startLn, endLn int
}

// attach distributes the comments that lie in [lo,hi) but not between the
// braces of a nested block over the items of one body:
//
//	inner  the comment lies inside the item's range
//	line   it starts behind the item on the line where the item ends
//	lead   it ends in front of the item on the line where the item starts, or
//	       it is on lines of its own and the line below its last line is the
//	       first line of the item or of another lead comment of the item
//	       ("whole lines containing only comment tokens with no blank lines
//	       between", hclwrite/parser.go)
//	free   anything else, in particular comment lines that follow an item's
//	       line comment: a line comment is a comment "on the same line where
//	       its significant tokens ended", so the line below is not part of it
//
// Where a comment could be counted to an item or not (a comment above an
// item), it is counted to the item: the ledger then demands less.
func (r *srcReader) attach(b *refwriter.Body, ents []srcEnt, lo, hi int) {
	name := func(e *srcEnt) string {
		if e.item.Block {
			return "block " + e.item.Type
		}
		return "attribute " + e.item.Name
	}
	type pending struct {
		c      srcComment
		ln, to int // first and last line
	}
	var own []pending
	put := func(e *srcEnt, c srcComment, kind string) {
		rc := refwriter.Comment{Seq: c.start, Text: stripSpaces(r.src[c.start:c.end]), Kind: kind, Open: c.end == len(r.src)}
		if e == nil {
			b.Free = append(b.Free, rc)
			return
		}
		rc.Of = name(e)
		e.item.Comments = append(e.item.Comments, rc)
	}
next:
	for _, c := range r.comments {
		if c.start < lo || c.start >= hi {
			continue
		}
		for i := range ents {
			if e := &ents[i]; e.item.Block && c.start >= e.inStart && c.start < e.inEnd {
				continue next // belongs to the nested body
			}
		}
		for i := range ents {
			if e := &ents[i]; c.start >= e.start && c.start < e.end {
				put(e, c, "inner")
				continue next
			}
		}
		ln, to := r.line(c.start), r.line(c.end)
		for i := len(ents) - 1; i >= 0; i-- {
			if e := &ents[i]; c.start >= e.end && ln == e.endLn {
				put(e, c, "line")
				continue next
			}
		}
		for i := range ents {
			if e := &ents[i]; c.end <= e.start && to == e.startLn {
				put(e, c, "lead")
				continue next
			}
		}
		own = append(own, pending{c, ln, to})
	}
	below := map[int]*srcEnt{} // line -> item whose lead comment run / first line is on that line
	for i := range ents {
		below[ents[i].startLn] = &ents[i]
	}
	for i := len(own) - 1; i >= 0; i-- {
		p := own[i]
		if e, ok := below[p.to+1]; ok {
			put(e, p.c, "lead")
			below[p.ln] = e
			continue
		}
		put(nil, p.c, "free")
	}
	sort.SliceStable(b.Free, func(i, j int) bool { return b.Free[i].Seq < b.Free[j].Seq })
	for i := range ents {
		cs := ents[i].item.Comments
		sort.SliceStable(cs, func(i, j int) bool { return cs[i].Seq < cs[j].Seq })
	}
}

func stripSpaces(b []byte) string {
	var sb strings.Builder
	for _, c := range b {
		if c != ' ' && c != '\t' {
			sb.WriteByte(c)
		}
	}
	return sb.String()
}

func stripWS(b []byte) string {
	var sb strings.Builder
	for _, c := range b {
		if c != ' ' && c != '\t' && c != '\n' && c != '\r' {
			sb.WriteByte(c)
		}
	}
	return sb.String()
}

// extent widens the byte range [start,end) of an item to include its lead
// comments (the unbroken run of whole-line `#` / `//` comments directly above
// an item that starts its line) and the rest of its line (an optional `#` /
// `//` comment and the newline). terminated reports whether the item's line
// ends with a newline that belongs to it.
func (r *srcReader) extent(start, end int) (lo, hi int, terminated bool) {
	src := r.src
	lo = start
	ls := start
	for ls > 0 && src[ls-1] != '\n' {
		ls--
	}
	if strings.TrimLeft(string(src[ls:start]), " \t") == "" {
		for ls > 0 {
			pls := ls - 1
			for pls > 0 && src[pls-1] != '\n' {
				pls--
			}
			line := strings.TrimLeft(string(src[pls:ls]), " \t")
			if !strings.HasPrefix(line, "#") && !strings.HasPrefix(line, "//") {
				break
			}
			lo, ls = pls, pls
		}
	}
	i := end
	for i < len(src) && (src[i] == ' ' || src[i] == '\t') {
		i++
	}
	switch {
	case i < len(src) && (src[i] == '#' || (src[i] == '/' && i+1 < len(src) && src[i+1] == '/')):
		for i < len(src) && src[i] != '\n' {
			i++
		}
		if i < len(src) {
			return lo, i + 1, true
		}
		return lo, i, false
	case i < len(src) && src[i] == '\n':
		return lo, i + 1, true
	}
	return lo, end, false
}

// body converts one body.
func (r *srcReader) body(sb *hclsyntax.Body, lo, hi int) *refwriter.Body {
	type ent struct {
		rng  hcl.Range
		attr *hclsyntax.Attribute
		blk  *hclsyntax.Block
	}
	var ents []ent
	for _, a := range sb.Attributes {
		ents = append(ents, ent{rng: a.SrcRange, attr: a})
	}
	for _, b := range sb.Blocks {
		ents = append(ents, ent{rng: b.Range(), blk: b})
	}
	sort.Slice(ents, func(i, j int) bool { return ents[i].rng.Start.Byte < ents[j].rng.Start.Byte })

	out := &refwriter.Body{}
	var sents []srcEnt
	for _, e := range ents {
		it := &refwriter.Item{}
		se := srcEnt{item: it, start: e.rng.Start.Byte, end: e.rng.End.Byte}
		se.startLn, se.endLn = r.line(se.start), r.line(se.end)
		if e.attr != nil {
			it.Name = e.attr.Name
			xr := e.attr.Expr.Range()
			it.Expr = stripWS(r.src[xr.Start.Byte:xr.End.Byte])
			it.Tag = "orig"
		} else {
			it.Block = true
			it.Type = e.blk.Type
			it.Labels = append([]string(nil), e.blk.Labels...)
			se.inStart, se.inEnd = e.blk.OpenBraceRange.End.Byte, e.blk.CloseBraceRange.Start.Byte
			it.Body = r.body(e.blk.Body, se.inStart, se.inEnd)
			it.Body.OneLine = e.blk.OpenBraceRange.Start.Line == e.blk.CloseBraceRange.Start.Line
		}
		lo, hi, terminated := r.extent(e.rng.Start.Byte, e.rng.End.Byte)
		it.NoEOL = !terminated
		it.Orig = stripSpaces(r.src[lo:hi])
		out.Items = append(out.Items, it)
		sents = append(sents, se)
	}
	if len(r.comments) > 0 {
		r.attach(out, sents, lo, hi)
	}
	return out
}
