package main

import (
	"sort"
	"strings"

	"github.com/hashicorp/hcl/v2"
	"github.com/hashicorp/hcl/v2/hclsyntax"

	"verif/ref/refwriter"
)

// fromSource reads native-syntax source with the hclsyntax parser and scanner
// (trusted base of this check; hclwrite is the code under test) and turns it
// into the model's tree shape: per body the ordered items with attribute
// names, expression source text modulo whitespace, block types and labels,
// recursively. Every item also gets Orig = the text of the item together with
// its lead comments (whole-line comments directly above it) and its line
// comment, with spaces and tabs removed (found by a plain byte scan, no
// lexer); that is what the "untouched items keep their tokens and comments"
// clause compares.
func fromSource(src []byte) (*refwriter.Body, hcl.Diagnostics) {
	f, diags := hclsyntax.ParseConfig(src, "out.hcl", hcl.InitialPos)
	if diags.HasErrors() {
		return nil, diags
	}
	sr := &srcReader{src: src}
	return sr.body(f.Body.(*hclsyntax.Body)), nil
}

type srcReader struct {
	src []byte
}

func stripSpaces(b []byte) string {
	var sb strings.Builder
	for _, c := range b {
		if c != ' ' && c != '\t' {
			sb.WriteByte(c)
		}
	}
	return sb.String()
}

func stripWS(b []byte) string {
	var sb strings.Builder
	for _, c := range b {
		if c != ' ' && c != '\t' && c != '\n' && c != '\r' {
			sb.WriteByte(c)
		}
	}
	return sb.String()
}

// extent widens the byte range [start,end) of an item to include its lead
// comments (the unbroken run of whole-line `#` / `//` comments directly above
// an item that starts its line) and the rest of its line (an optional `#` /
// `//` comment and the newline). terminated reports whether the item's line
// ends with a newline that belongs to it.
func (r *srcReader) extent(start, end int) (lo, hi int, terminated bool) {
	src := r.src
	lo = start
	ls := start
	for ls > 0 && src[ls-1] != '\n' {
		ls--
	}
	if strings.TrimLeft(string(src[ls:start]), " \t") == "" {
		for ls > 0 {
			pls := ls - 1
			for pls > 0 && src[pls-1] != '\n' {
				pls--
			}
			line := strings.TrimLeft(string(src[pls:ls]), " \t")
			if !strings.HasPrefix(line, "#") && !strings.HasPrefix(line, "//") {
				break
			}
			lo, ls = pls, pls
		}
	}
	i := end
	for i < len(src) && (src[i] == ' ' || src[i] == '\t') {
		i++
	}
	switch {
	case i < len(src) && (src[i] == '#' || (src[i] == '/' && i+1 < len(src) && src[i+1] == '/')):
		for i < len(src) && src[i] != '\n' {
			i++
		}
		if i < len(src) {
			return lo, i + 1, true
		}
		return lo, i, false
	case i < len(src) && src[i] == '\n':
		return lo, i + 1, true
	}
	return lo, end, false
}

// body converts one body.
func (r *srcReader) body(sb *hclsyntax.Body) *refwriter.Body {
	type ent struct {
		rng  hcl.Range
		attr *hclsyntax.Attribute
		blk  *hclsyntax.Block
	}
	var ents []ent
	for _, a := range sb.Attributes {
		ents = append(ents, ent{rng: a.SrcRange, attr: a})
	}
	for _, b := range sb.Blocks {
		ents = append(ents, ent{rng: b.Range(), blk: b})
	}
	sort.Slice(ents, func(i, j int) bool { return ents[i].rng.Start.Byte < ents[j].rng.Start.Byte })

	out := &refwriter.Body{}
	for _, e := range ents {
		it := &refwriter.Item{}
		if e.attr != nil {
			it.Name = e.attr.Name
			xr := e.attr.Expr.Range()
			it.Expr = stripWS(r.src[xr.Start.Byte:xr.End.Byte])
			it.Tag = "orig"
		} else {
			it.Block = true
			it.Type = e.blk.Type
			it.Labels = append([]string(nil), e.blk.Labels...)
			it.Body = r.body(e.blk.Body)
			it.Body.OneLine = e.blk.OpenBraceRange.Start.Line == e.blk.CloseBraceRange.Start.Line
		}
		lo, hi, terminated := r.extent(e.rng.Start.Byte, e.rng.End.Byte)
		it.NoEOL = !terminated
		it.Orig = stripSpaces(r.src[lo:hi])
		out.Items = append(out.Items, it)
	}
	return out
}
