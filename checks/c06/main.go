// C06 — Value marks propagate to everything they influence.
//
// Two-run non-interference, checked exhaustively over the expression families
// (and, in body.go, over hcldec-decoded and dynamic-block bodies): for every
// AST, every variable it refers to, and every pair of contents of that
// variable (same type, same mark; including the unknown value), if both
// evaluations are error-free and their unmarked results differ, both results
// must carry the mark.
package main

import (
	"fmt"
	"strings"
	"time"

	"github.com/hashicorp/hcl/v2"
	"github.com/hashicorp/hcl/v2/hclsyntax"
	"github.com/zclconf/go-cty/cty"

	"verif/engine"
	ex "verif/gen/expr"
	"verif/gen/fam"
	"verif/gen/pool"
	"verif/vfmt"
)

type Data struct {
	Kind   string    `json:"kind"` // "expr" or "body"
	Family string    `json:"family"`
	E      *ex.E     `json:"e,omitempty"`
	Src    string    `json:"src"`
	Body   *BodyCase `json:"body,omitempty"`
}

const mark = "SECRET"

// otherMark is carried by every other variable in the background-marks runs.
const otherMark = "OTHER"

var counters engine.Counter

func gen(tier string, emit func(engine.Case) bool) {
	ok := true
	fam.All(fam.Opts{Thorough: tier == "thorough"}, func(family, id string, e *ex.E) bool {
		if len(pool.FreeVars(e)) == 0 {
			return true
		}
		ok = emit(engine.Case{ID: id, Data: Data{Kind: "expr", Family: family, E: e, Src: ex.Canon(e)}})
		return ok
	})
	if !ok {
		return
	}
	genBodies(tier, emit)
}

func kindOf(e *ex.E) string {
	switch e.K {
	case "bin", "un":
		return e.K + "(" + e.S + ")"
	case "tmpl":
		return "tmpl"
	case "splat":
		if e.Full {
			return "fullsplat"
		}
		return "attrsplat"
	case "for":
		if e.Obj {
			return "forobj"
		}
		return "fortuple"
	}
	return e.K
}

func parse(e *ex.E) hclsyntax.Expression {
	src := ex.Canon(e)
	var expr hclsyntax.Expression
	var diags hcl.Diagnostics
	if e.K == "tmpl" && e.Form == "b" {
		expr, diags = hclsyntax.ParseTemplate([]byte(src), "t.hcl", hcl.InitialPos)
	} else {
		expr, diags = hclsyntax.ParseExpression([]byte(src), "t.hcl", hcl.InitialPos)
	}
	if diags.HasErrors() {
		return nil
	}
	return expr
}

// variants lists groups of contents for variable name; within one group the
// contents differ only in the marked part.
type variant struct {
	desc string
	vals []cty.Value // already marked
}

func markElem(v cty.Value, newElem *cty.Value) (cty.Value, bool) {
	ty := v.Type()
	if v.IsNull() || !v.IsKnown() {
		return v, false
	}
	repl := func(old cty.Value) cty.Value {
		if newElem != nil {
			return (*newElem).Mark(mark)
		}
		return old.Mark(mark)
	}
	switch {
	case ty.IsListType() || ty.IsTupleType():
		if v.LengthInt() == 0 {
			return v, false
		}
		els := v.AsValueSlice()
		els[0] = repl(els[0])
		if ty.IsListType() {
			return cty.ListVal(els), true
		}
		return cty.TupleVal(els), true
	case ty.IsMapType() || ty.IsObjectType():
		m := v.AsValueMap()
		if len(m) == 0 {
			return v, false
		}
		k := "a"
		if _, ok := m[k]; !ok {
			return v, false
		}
		m[k] = repl(m[k])
		if ty.IsMapType() {
			return cty.MapVal(m), true
		}
		return cty.ObjectVal(m), true
	}
	return v, false
}

func variants(name string) []variant {
	orig := pool.Vars[name]
	ty := orig.Type()
	var out []variant
	whole := variant{desc: "whole value marked"}
	whole.vals = append(whole.vals, orig.Mark(mark))
	for _, a := range pool.Alternatives(name) {
		whole.vals = append(whole.vals, a.Mark(mark))
	}
	if ty != cty.DynamicPseudoType {
		whole.vals = append(whole.vals, cty.UnknownVal(ty).Mark(mark))
		if !orig.IsNull() {
			whole.vals = append(whole.vals, cty.NullVal(ty).Mark(mark))
		}
	}
	out = append(out, whole)
	// mark nested inside the collection: only the marked element changes
	if first, ok := markElem(orig, nil); ok {
		nested := variant{desc: "first element/attribute a marked"}
		nested.vals = append(nested.vals, first)
		var elemTy cty.Type
		var cur cty.Value
		switch {
		case ty.IsListType() || ty.IsTupleType():
			cur = orig.AsValueSlice()[0]
		default:
			cur = orig.AsValueMap()["a"]
		}
		elemTy = cur.Type()
		var alts []cty.Value
		switch {
		case elemTy == cty.Number:
			alts = []cty.Value{cty.NumberIntVal(9), cty.NumberIntVal(0)}
		case elemTy == cty.String:
			alts = []cty.Value{cty.StringVal("q"), cty.StringVal("b"), cty.StringVal("")}
		}
		alts = append(alts, cty.UnknownVal(elemTy))
		for _, a := range alts {
			a := a
			if nv, ok := markElem(orig, &a); ok {
				nested.vals = append(nested.vals, nv)
			}
		}
		if len(nested.vals) > 1 {
			out = append(out, nested)
		}
	}
	return out
}

type run struct {
	in  cty.Value
	out cty.Value
	err bool
}

func unmarkDeep(v cty.Value) cty.Value {
	u, _ := v.UnmarkDeep()
	return u
}

// nullInSet reports whether a set somewhere in v has a null element.
func nullInSet(v cty.Value) bool {
	v = unmarkDeep(v)
	found := false
	_ = cty.Walk(v, func(_ cty.Path, x cty.Value) (bool, error) {
		if x.IsKnown() && !x.IsNull() && x.Type().IsSetType() {
			for it := x.ElementIterator(); it.Next(); {
				if _, ev := it.Element(); ev.IsNull() {
					found = true
				}
			}
		}
		return !found, nil
	})
	return found
}

// findLeak evaluates expr under every content of every variant group of the
// variable and returns a description of a laundering pair, or "".
func findLeak(expr hclsyntax.Expression, name string) (string, int) {
	leak, pairs := findLeakIn(expr, name, false)
	if leak != "" {
		return leak, pairs
	}
	// the same with every other variable carrying a different mark: the
	// result must carry *this* variable's mark, not just some mark
	leak, p2 := findLeakIn(expr, name, true)
	return leak, pairs + p2
}

// hasMark reports whether m is among the marks of v or of anything nested in v.
func hasMark(v cty.Value, m any) bool {
	_, pvm := v.UnmarkDeepWithPaths()
	for _, p := range pvm {
		if _, ok := p.Marks[m]; ok {
			return true
		}
	}
	return false
}

// withOthersMarked returns the pool scope with name bound to in and, when
// background is set, every other variable marked as a whole with otherMark.
func withOthersMarked(name string, in cty.Value, background bool) map[string]cty.Value {
	m := pool.WithVar(name, in)
	if background {
		for k, v := range m {
			if k != name {
				m[k] = v.Mark(otherMark)
			}
		}
	}
	return m
}

func findLeakIn(expr hclsyntax.Expression, name string, background bool) (string, int) {
	pairs := 0
	note := ""
	if background {
		note = " (every other variable marked OTHER)"
	}
	for _, vr := range variants(name) {
		var runs []run
		for _, in := range vr.vals {
			ctx := &hcl.EvalContext{Variables: withOthersMarked(name, in, background), Functions: pool.ImplFuncs()}
			v, diags := expr.Value(ctx)
			runs = append(runs, run{in, v, diags.HasErrors()})
		}
		for i := 0; i < len(runs); i++ {
			for j := i + 1; j < len(runs); j++ {
				a, b := runs[i], runs[j]
				if a.err || b.err {
					continue
				}
				if unmarkDeep(a.out).RawEquals(unmarkDeep(b.out)) {
					continue
				}
				pairs++
				// Trusted base: go-cty cannot mark the elements of a set individually and its conversion of a
				// tuple / list with a marked *null* element to a set drops that element's mark altogether
				// (convert.Convert([null marked], set(T)) = set[null]). A run whose unmarked result holds a
				// null inside a set is therefore not judged.
				if (!hasMark(a.out, mark) && nullInSet(a.out)) || (!hasMark(b.out, mark) && nullInSet(b.out)) {
					counters.Add("go_cty_null_set_element_mark_loss_not_judged", 1)
					continue
				}
				if !hasMark(a.out, mark) || !hasMark(b.out, mark) {
					return fmt.Sprintf("variable %s (%s)%s:\n  %s = %s  ->  %s\n  %s = %s  ->  %s\nthe results differ, so both depend on the marked variable, but at least one does not carry its mark",
						name, vr.desc, note, name, vfmt.V(a.in), vfmt.V(a.out), name, vfmt.V(b.in), vfmt.V(b.out)), pairs
				}
			}
		}
	}
	return "", pairs
}

func judge(c engine.Case) engine.Outcome {
	d := c.Data.(Data)
	if d.Kind == "body" {
		return judgeBody(d)
	}
	expr := parse(d.E)
	if expr == nil {
		return engine.Skip() // validity of the rendering is C01's concern
	}
	total := 0
	for _, name := range pool.FreeVars(d.E) {
		leak, pairs := findLeak(expr, name)
		total += pairs
		if leak == "" {
			continue
		}
		// localise to the deepest closed sub-expression showing the same leak
		cur := d.E
		for {
			found := false
			for _, slot := range cur.Children() {
				sub := *slot
				if len(pool.FreeVars(sub)) == 0 || !pool.Closed(sub) {
					continue
				}
				se := parse(sub)
				if se == nil {
					continue
				}
				if l2, _ := findLeak(se, name); l2 != "" {
					cur, found, leak = sub, true, l2
					break
				}
			}
			if !found {
				break
			}
		}
		return engine.Fail("c06."+leakKind(cur, name)+".mark-lost", "source: %s\nminimal sub-expression: %s\n%s", d.Src, ex.Canon(cur), leak)
	}
	counters.Add("dependent_pairs", int64(total))
	if total == 0 {
		return engine.Pass("")
	}
	return engine.Pass(kindOf(d.E) + ":" + strings.Join(pool.FreeVars(d.E), ",") + fmt.Sprint(total))
}

// leakKind names the construct of a localised leak; indexing an object with
// a marked key is distinguished from the other index forms (hcl.Index has a
// separate code path for it).
func leakKind(cur *ex.E, name string) string {
	k := kindOf(cur)
	if cur.K == "idx" && len(cur.A) == 2 && pool.Closed(cur.A[0]) {
		inKey := false
		for _, n := range pool.FreeVars(cur.A[1]) {
			if n == name {
				inKey = true
			}
		}
		if ce := parse(cur.A[0]); ce != nil && inKey {
			v, diags := ce.Value(&hcl.EvalContext{Variables: pool.Vars, Functions: pool.ImplFuncs()})
			if !diags.HasErrors() && v.Type().IsObjectType() {
				return "idx-object-marked-key"
			}
		}
	}
	// the same index operation as a step of a splat trail: l[*][key], l[*].a[key]
	if cur.K == "splat" && len(cur.A) == 1 && pool.Closed(cur.A[0]) {
		for i, st := range cur.Trail {
			if st.K != "idx" || st.Key == nil {
				continue
			}
			inKey := false
			for _, n := range pool.FreeVars(st.Key) {
				if n == name {
					inKey = true
				}
			}
			if !inKey {
				continue
			}
			prefix := ex.Splat(cur.A[0], cur.Full, cur.Trail[:i]...)
			if !pool.Closed(prefix) {
				continue
			}
			ce := parse(prefix)
			if ce == nil {
				continue
			}
			v, diags := ce.Value(&hcl.EvalContext{Variables: pool.Vars, Functions: pool.ImplFuncs()})
			if diags.HasErrors() || !v.IsWhollyKnown() || v.IsNull() || !v.CanIterateElements() {
				continue
			}
			for it := v.ElementIterator(); it.Next(); {
				_, ev := it.Element()
				if ev.Type().IsObjectType() {
					return "idx-object-marked-key"
				}
			}
			// an empty collection of objects: the step is applied to an
			// unknown object to find the result's element type
			if ty := v.Type(); ty.IsCollectionType() && ty.ElementType().IsObjectType() {
				return "idx-object-marked-key"
			}
		}
	}
	return k
}

func main() {
	engine.Main(&engine.Check{
		ID:        "C06",
		Title:     "Value marks propagate to everything they influence",
		Technique: "bounded exhaustive two-run non-interference check over expression ASTs, decodable bodies and dynamic-block bodies x marked variable x content pairs, on the real evaluator/decoder",
		Rule: "every AST of the expression families (gen/fam) that refers to a variable x every such variable x {whole value marked, first element/attribute marked} x all pairs of contents of the same type (pool alternatives, typed unknown, null); bodies: see rule_bodies. " +
			"Non-trivial = a pair of error-free runs whose unmarked results differ; oracle = both results then carry the mark. distinct = distinct (construct, variables, number of dependent pairs).",
		Assumptions: []string{"go-cty mark bookkeeping (Mark/UnmarkDeep/ContainsMarked) is trusted", "results that are equal after unmarking are not required to be marked (the property's own antecedent)"},
		Gen:         gen,
		Judge:       judge,
		Load:        engine.LoadAs[Data],
		Extra: func() map[string]any {
			m := map[string]any{"rule_bodies": bodyRule}
			for k, v := range counters.Snapshot() {
				m[k] = v
			}
			return m
		},
		QuickBudget:    5 * time.Minute,
		ThoroughBudget: 45 * time.Minute,
	})
}
