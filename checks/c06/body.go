package main

import (
	"fmt"
	"strings"

	"github.com/hashicorp/hcl/v2"
	"github.com/hashicorp/hcl/v2/ext/dynblock"
	"github.com/hashicorp/hcl/v2/hcldec"
	"github.com/hashicorp/hcl/v2/hclsyntax"
	hcljson "github.com/hashicorp/hcl/v2/json"
	"github.com/zclconf/go-cty/cty"

	"verif/engine"
	"verif/gen/pool"
	"verif/vfmt"
)

// BodyCase: a native configuration text decoded with one spec from the
// table; Var is the marked variable; Expand says whether dynamic blocks are
// expanded first (always true when the text contains one).
type BodyCase struct {
	Text string `json:"text"`
	Spec string `json:"spec"`
	Var  string `json:"var"`
}

const bodyRule = "bodies: 58 body templates (45 native, 13 JSON; 10 of them put the marked value inside a constructor decoded against 8 typed attribute specs whose conversion changes the structure: object->map, tuple->set/list, nested) (attributes, static blocks with and without labels, dynamic blocks whose for_each / labels / content / iterator use the marked variable, static and dynamic blocks nested in dynamic content) x 5 marked variables x every hcldec block spec kind (Attr, Block, BlockList, BlockSet, BlockTuple, BlockMap, BlockObject, BlockAttrs; nested block specs one level down) x all pairs of contents incl. unknown, each once with all other variables unmarked and once with every other variable carrying a different mark (the result must carry the marked variable's own mark); decoded with dynblock.Expand + hcldec.Decode, and in two steps (hcldec.PartialDecode of an unrelated attribute, then Decode of the remaining body); contents include typed nulls (DefaultSpec)"

var attrA = &hcldec.AttrSpec{Name: "a", Type: cty.DynamicPseudoType}

func nestedSpecs() map[string]hcldec.Spec {
	inner := hcldec.ObjectSpec{"a": attrA}
	out := map[string]hcldec.Spec{
		"attr":  hcldec.ObjectSpec{"a": attrA},
		"block": hcldec.ObjectSpec{"b": &hcldec.BlockSpec{TypeName: "b", Nested: inner}},
		"list":  hcldec.ObjectSpec{"b": &hcldec.BlockListSpec{TypeName: "b", Nested: inner}},
		"set":   hcldec.ObjectSpec{"b": &hcldec.BlockSetSpec{TypeName: "b", Nested: inner}},
		"tuple": hcldec.ObjectSpec{"b": &hcldec.BlockTupleSpec{TypeName: "b", Nested: inner}},
		// BlockMapSpec documents that dynamically-typed attributes must not be used inside it
		"map":     hcldec.ObjectSpec{"b": &hcldec.BlockMapSpec{TypeName: "b", LabelNames: []string{"k"}, Nested: hcldec.ObjectSpec{"a": &hcldec.AttrSpec{Name: "a", Type: cty.String}}}},
		"object":  hcldec.ObjectSpec{"b": &hcldec.BlockObjectSpec{TypeName: "b", LabelNames: []string{"k"}, Nested: inner}},
		"attrs":   hcldec.ObjectSpec{"b": &hcldec.BlockAttrsSpec{TypeName: "b", ElementType: cty.String}},
		"default": hcldec.ObjectSpec{"a": &hcldec.DefaultSpec{Primary: &hcldec.AttrSpec{Name: "a", Type: cty.String}, Default: &hcldec.LiteralSpec{Value: cty.StringVal("dflt")}}},
		"label":   hcldec.ObjectSpec{"b": &hcldec.BlockListSpec{TypeName: "b", Nested: hcldec.ObjectSpec{"a": attrA, "k": &hcldec.BlockLabelSpec{Index: 0, Name: "k"}}}},
	}
	// typed attributes whose conversion from the written constructor changes the structure
	// (object -> map, tuple -> set / list, nested); paired only with the "typed" templates
	for name, ty := range map[string]cty.Type{
		"typed-map": cty.Map(cty.String), "typed-set": cty.Set(cty.String), "typed-list": cty.List(cty.String),
		"typed-listmap": cty.List(cty.Map(cty.String)), "typed-maplist": cty.Map(cty.List(cty.String)), "typed-mapset": cty.Map(cty.Set(cty.String)),
		"typed-obj": cty.Object(map[string]cty.Type{"k": cty.String}), "typed-setobj": cty.Set(cty.Object(map[string]cty.Type{"k": cty.String})),
	} {
		out[name] = hcldec.ObjectSpec{"a": &hcldec.AttrSpec{Name: "a", Type: ty}}
	}
	// b blocks containing nested c blocks, c decoded with each block spec kind
	cInner := hcldec.ObjectSpec{"a": attrA}
	cKinds := map[string]hcldec.Spec{
		"cblock": &hcldec.BlockSpec{TypeName: "c", Nested: cInner},
		"clist":  &hcldec.BlockListSpec{TypeName: "c", Nested: cInner},
		"cset":   &hcldec.BlockSetSpec{TypeName: "c", Nested: cInner},
		"ctuple": &hcldec.BlockTupleSpec{TypeName: "c", Nested: cInner},
		"cattrs": &hcldec.BlockAttrsSpec{TypeName: "c", ElementType: cty.String},
	}
	for ck, cs := range cKinds {
		nested := hcldec.ObjectSpec{"c": cs}
		out["list/"+ck] = hcldec.ObjectSpec{"b": &hcldec.BlockListSpec{TypeName: "b", Nested: nested}}
		out["block/"+ck] = hcldec.ObjectSpec{"b": &hcldec.BlockSpec{TypeName: "b", Nested: nested}}
		out["tuple/"+ck] = hcldec.ObjectSpec{"b": &hcldec.BlockTupleSpec{TypeName: "b", Nested: nested}}
		out["set/"+ck] = hcldec.ObjectSpec{"b": &hcldec.BlockSetSpec{TypeName: "b", Nested: nested}}
	}
	return out
}

var specTable = nestedSpecs()

type tmpl struct {
	text   string // X is replaced by the variable name
	labels bool   // blocks carry one label
	nested bool   // b contains c blocks
	json   bool   // JSON syntax
	typed  bool   // pairs with the typed-* specs only
}

var templates = []tmpl{
	// the marked value nested inside a constructor that is converted to the attribute's declared type
	{text: "a = { k = X }\n", typed: true},
	{text: "a = [X]\n", typed: true},
	{text: "a = [X, \"c\"]\n", typed: true},
	{text: "a = [{ k = X }]\n", typed: true},
	{text: "a = { k = [X] }\n", typed: true},
	{text: "a = { k = X, j = \"c\" }\n", typed: true},
	{text: `{"a": {"k": "${X}"}}`, json: true, typed: true},
	{text: `{"a": ["${X}"]}`, json: true, typed: true},
	{text: `{"a": [{"k": "${X}"}]}`, json: true, typed: true},
	{text: `{"a": {"k": ["${X}"]}}`, json: true, typed: true},
	{text: "a = X\n"},
	{text: "a = \"p-${X}\"\n"},
	{text: "a = [X, 1]\n"},
	{text: "b {\n  a = X\n}\n"},
	{text: "b {\n  a = X\n}\nb {\n  a = 1\n}\n"},
	{text: "b \"l\" {\n  a = X\n}\n", labels: true},
	{text: "dynamic \"b\" {\n  for_each = X\n  content {\n    a = b.value\n  }\n}\n"},
	{text: "dynamic \"b\" {\n  for_each = X\n  content {\n    a = 1\n  }\n}\n"},
	{text: "dynamic \"b\" {\n  for_each = X\n  content {\n    a = b.key\n  }\n}\n"},
	{text: "dynamic \"b\" {\n  for_each = [\"p\", \"q\"]\n  content {\n    a = X\n  }\n}\n"},
	{text: "dynamic \"b\" {\n  for_each = X\n  iterator = it\n  content {\n    a = it.value\n  }\n}\n"},
	{text: "b {\n  a = 0\n}\ndynamic \"b\" {\n  for_each = X\n  content {\n    a = 1\n  }\n}\n"},
	// two dynamic blocks of one type: an unmarked for_each first, the marked one second (and the reverse)
	{text: "dynamic \"b\" {\n  for_each = [\"p\"]\n  content {\n    a = 0\n  }\n}\ndynamic \"b\" {\n  for_each = X\n  content {\n    a = 1\n  }\n}\n"},
	{text: "dynamic \"b\" {\n  for_each = [\"p\"]\n  content {\n    a = b.value\n  }\n}\ndynamic \"b\" {\n  for_each = X\n  content {\n    a = b.value\n  }\n}\n"},
	{text: "dynamic \"b\" {\n  for_each = X\n  content {\n    a = 1\n  }\n}\ndynamic \"b\" {\n  for_each = [\"p\"]\n  content {\n    a = 0\n  }\n}\n"},
	{text: "dynamic \"b\" {\n  for_each = X\n  labels = [\"l\"]\n  content {\n    a = b.value\n  }\n}\n", labels: true},
	{text: "dynamic \"b\" {\n  for_each = [\"p\"]\n  labels = [X]\n  content {\n    a = 1\n  }\n}\n", labels: true},
	{text: "dynamic \"b\" {\n  for_each = X\n  labels = [b.key]\n  content {\n    a = 1\n  }\n}\n", labels: true},
	{text: "dynamic \"b\" {\n  for_each = X ? [1] : []\n  content {\n    a = 1\n  }\n}\n"},
	{text: "dynamic \"b\" {\n  for_each = X ? [1] : [2]\n  content {\n    a = 1\n  }\n}\n"},
	// JSON syntax
	{text: `{"a": "${X}"}`, json: true},
	{text: `{"a": "p-${X}"}`, json: true},
	{text: `{"a": {"${X}": 1, "k": 2}}`, json: true},
	{text: `{"a": ["${X}", 1]}`, json: true},
	{text: `{"b": {"a": "${X}"}}`, json: true},
	{text: `{"b": [{"a": "${X}"}, {"a": 1}]}`, json: true},
	{text: `{"dynamic": {"b": {"for_each": "${X}", "content": {"a": "${b.value}"}}}}`, json: true},
	{text: `{"dynamic": {"b": {"for_each": "${X}", "content": {"a": 1}}}}`, json: true},
	{text: `{"dynamic": {"b": {"for_each": "${X}", "content": {}}}}`, json: true},
	// content that sets no attributes: only the number of blocks depends on the marked value
	{text: "dynamic \"b\" {\n  for_each = X\n  content {}\n}\n"},
	{text: "b {}\ndynamic \"b\" {\n  for_each = X\n  content {}\n}\n"},
	{text: "dynamic \"b\" {\n  for_each = X\n  labels = [\"l\"]\n  content {}\n}\n", labels: true},
	{text: "dynamic \"b\" {\n  for_each = X ? [1, 2] : [1]\n  content {}\n}\n"},
	// nested c blocks inside b
	{text: "b {\n  c {\n    a = X\n  }\n}\n", nested: true},
	{text: "dynamic \"b\" {\n  for_each = X\n  content {\n    c {\n      a = 1\n    }\n  }\n}\n", nested: true},
	{text: "dynamic \"b\" {\n  for_each = X\n  content {\n    c {\n      a = b.value\n    }\n  }\n}\n", nested: true},
	{text: "dynamic \"b\" {\n  for_each = X\n  content {\n    dynamic \"c\" {\n      for_each = [1]\n      content {\n        a = b.value\n      }\n    }\n  }\n}\n", nested: true},
	{text: "dynamic \"b\" {\n  for_each = X\n  content {\n    dynamic \"c\" {\n      for_each = [1]\n      content {\n        a = 1\n      }\n    }\n  }\n}\n", nested: true},
	{text: "dynamic \"b\" {\n  for_each = [1]\n  content {\n    dynamic \"c\" {\n      for_each = X\n      content {\n        a = 1\n      }\n    }\n  }\n}\n", nested: true},
	{text: "b {\n  dynamic \"c\" {\n    for_each = X\n    content {\n      a = c.value\n    }\n  }\n}\n", nested: true},
	{text: "dynamic \"b\" {\n  for_each = X\n  content {\n    c {\n      a = 1\n    }\n    c {\n      a = 2\n    }\n  }\n}\n", nested: true},
	{text: "dynamic \"b\" {\n  for_each = [1]\n  content {\n    c {\n      a = X\n    }\n  }\n}\n", nested: true},
	{text: "dynamic \"b\" {\n  for_each = X\n  content {\n    c {}\n  }\n}\n", nested: true},
	{text: "dynamic \"b\" {\n  for_each = [1]\n  content {\n    dynamic \"c\" {\n      for_each = X\n      content {}\n    }\n  }\n}\n", nested: true},
	// two nesting levels driven by two variables (ss is never the marked variable; in the
	// background-marks runs it carries the other mark)
	{text: "dynamic \"b\" {\n  for_each = ss\n  content {\n    dynamic \"c\" {\n      for_each = X\n      content {\n        a = c.value\n      }\n    }\n  }\n}\n", nested: true},
	{text: "dynamic \"b\" {\n  for_each = ss\n  content {\n    dynamic \"c\" {\n      for_each = X\n      content {\n        a = 1\n      }\n    }\n  }\n}\n", nested: true},
	{text: "dynamic \"b\" {\n  for_each = X\n  content {\n    dynamic \"c\" {\n      for_each = ss\n      content {\n        a = c.value\n      }\n    }\n  }\n}\n", nested: true},
	{text: "dynamic \"b\" {\n  for_each = ss\n  content {\n    c {\n      a = X\n    }\n  }\n}\n", nested: true},
}

func s(x string) cty.Value { return cty.StringVal(x) }
func n(i int64) cty.Value  { return cty.NumberIntVal(i) }

// contents per marked variable: all of one type.
var bodyContents = map[string][]cty.Value{
	"sa":  {s("a"), s("b"), cty.UnknownVal(cty.String)},
	"one": {n(1), n(2), cty.UnknownVal(cty.Number)},
	"bt":  {cty.True, cty.False, cty.UnknownVal(cty.Bool)},
	"ls":  {cty.ListVal([]cty.Value{s("a")}), cty.ListVal([]cty.Value{s("b")}), cty.ListVal([]cty.Value{s("a"), s("b")}), cty.ListValEmpty(cty.String), cty.UnknownVal(cty.List(cty.String))},
	"mn":  {cty.MapVal(map[string]cty.Value{"a": n(1)}), cty.MapVal(map[string]cty.Value{"a": n(2)}), cty.MapVal(map[string]cty.Value{"b": n(1)}), cty.MapValEmpty(cty.Number), cty.UnknownVal(cty.Map(cty.Number))},
}

var bodyVars = []string{"sa", "one", "bt", "ls", "mn"}

func genBodies(tier string, emit func(engine.Case) bool) {
	var specNames []string
	for k := range specTable {
		specNames = append(specNames, k)
	}
	sortStrings(specNames)
	for ti, t := range templates {
		for _, v := range bodyVars {
			text := strings.ReplaceAll(t.text, "X", v)
			for _, sn := range specNames {
				if strings.HasPrefix(sn, "typed-") != t.typed {
					continue
				}
				isNested := strings.Contains(sn, "/")
				if isNested != t.nested {
					continue
				}
				needLabels := sn == "map" || sn == "object" || sn == "label"
				if needLabels != t.labels {
					continue
				}
				id := fmt.Sprintf("body/%d/%s/%s", ti, v, sn)
				if !emit(engine.Case{ID: id, Data: Data{Kind: "body", Family: "body", Src: text, Body: &BodyCase{Text: text, Spec: sn, Var: v}}}) {
					return
				}
				if strings.Contains(text, "dynamic") && (sn == "list" || sn == "tuple" || sn == "block" || sn == "attrs" || sn == "set") {
					if !emit(engine.Case{ID: id + "/2step", Data: Data{Kind: "body", Family: "body", Src: text, Body: &BodyCase{Text: text, Spec: "2step:" + sn, Var: v}}}) {
						return
					}
				}
			}
		}
	}
}

func sortStrings(a []string) {
	for i := 1; i < len(a); i++ {
		for j := i; j > 0 && a[j] < a[j-1]; j-- {
			a[j], a[j-1] = a[j-1], a[j]
		}
	}
}

func judgeBody(d Data) engine.Outcome {
	bc := d.Body
	twoStep := strings.HasPrefix(bc.Spec, "2step:")
	spec, ok := specTable[strings.TrimPrefix(bc.Spec, "2step:")]
	if !ok {
		return engine.Skip()
	}
	var f *hcl.File
	var diags hcl.Diagnostics
	if strings.HasPrefix(bc.Text, "{") {
		f, diags = hcljson.Parse([]byte(bc.Text), "t.json")
	} else {
		f, diags = hclsyntax.ParseConfig([]byte(bc.Text), "t.hcl", hcl.InitialPos)
	}
	if diags.HasErrors() {
		return engine.Skip()
	}
	o := judgeBodyIn(d, f, spec, twoStep, false)
	// the same with every other variable carrying a different mark
	o2 := judgeBodyIn(d, f, spec, twoStep, true)
	// the two narrow classes of the recorded findings (no block at all / unknown for_each) must
	// not hide a failure of the general class in the other mode
	narrow := func(x engine.Outcome) bool {
		return strings.HasSuffix(x.Class, ".zero-blocks.mark-lost") || strings.HasSuffix(x.Class, ".unknown-input.mark-lost")
	}
	switch {
	case o.V == engine.Viol && !narrow(o):
		return o
	case o2.V == engine.Viol && !narrow(o2):
		return o2
	case o.V == engine.Viol:
		return o
	case o2.V == engine.Viol:
		return o2
	}
	return o
}

func judgeBodyIn(d Data, f *hcl.File, spec hcldec.Spec, twoStep, background bool) engine.Outcome {
	bc := d.Body
	note := ""
	if background {
		note = " (every other variable marked OTHER)"
	}
	var runs []run
	for _, in := range bodyContents[bc.Var] {
		ctx := &hcl.EvalContext{Variables: withOthersMarked(bc.Var, in.Mark(mark), background), Functions: pool.ImplFuncs()}
		body := dynblock.Expand(f.Body, ctx)
		if twoStep {
			// decode an unrelated attribute first and the rest from the remaining body
			v0, remain, d0 := hcldec.PartialDecode(body, hcldec.ObjectSpec{"zz": &hcldec.AttrSpec{Name: "zz", Type: cty.String}}, ctx)
			v1, d1 := hcldec.Decode(remain, spec, ctx)
			runs = append(runs, run{in, cty.TupleVal([]cty.Value{v0, v1}), d0.HasErrors() || d1.HasErrors()})
			continue
		}
		v, dd := hcldec.Decode(body, spec, ctx)
		runs = append(runs, run{in, v, dd.HasErrors()})
		// a second decode of the same expanded body gives the same value with the same marks
		v2, dd2 := hcldec.Decode(body, spec, ctx)
		if dd.HasErrors() == dd2.HasErrors() && !dd.HasErrors() && !v.RawEquals(v2) {
			return engine.Fail("c06.body.second-decode-differs", "body decoded with spec %q, marked variable %s%s:\n%s\n  %s = %s\n  first decode:  %s\n  second decode of the same expanded body: %s",
				bc.Spec, bc.Var, note, bc.Text, bc.Var, vfmt.V(in), vfmt.V(v), vfmt.V(v2))
		}
	}
	pairs := 0
	// a run "needs the mark" when it takes part in a pair of error-free runs with different results
	needs := make([]int, len(runs))
	for i := range needs {
		needs[i] = -1
	}
	for i := 0; i < len(runs); i++ {
		for j := i + 1; j < len(runs); j++ {
			a, b := runs[i], runs[j]
			if a.err || b.err {
				continue
			}
			if unmarkDeep(a.out).RawEquals(unmarkDeep(b.out)) {
				continue
			}
			pairs++
			if needs[i] < 0 {
				needs[i] = j
			}
			if needs[j] < 0 {
				needs[j] = i
			}
		}
	}
	construct := "static"
	if strings.Contains(bc.Text, "dynamic") {
		construct = "dynamic"
	}
	// classify: report the most informative unmarked run first
	best, bestRank := -1, 99
	bestClass := ""
	for i, r := range runs {
		if needs[i] < 0 || hasMark(r.out, mark) {
			continue
		}
		rank, class := 0, "c06.body."+construct+"."+strings.ReplaceAll(bc.Spec, "/", "-")+".mark-lost"
		switch {
		case construct == "dynamic" && !r.in.IsKnown():
			rank, class = 1, "c06.body.dynamic.unknown-input.mark-lost"
		case construct == "dynamic" && zeroBlocks(r.in):
			rank, class = 2, "c06.body.dynamic.zero-blocks.mark-lost"
		}
		if rank < bestRank {
			best, bestRank, bestClass = i, rank, class
		}
	}
	if best >= 0 {
		a, b := runs[best], runs[needs[best]]
		return engine.Fail(bestClass,
			"body decoded with spec %q, marked variable %s%s:\n%s\n  %s = %s  ->  %s\n  %s = %s  ->  %s\nthe decoded values differ, so both depend on the marked variable, but the first does not carry its mark",
			bc.Spec, bc.Var, note, bc.Text, bc.Var, vfmt.V(a.in), vfmt.V(a.out), bc.Var, vfmt.V(b.in), vfmt.V(b.out))
	}
	counters.Add("dependent_pairs_bodies", int64(pairs))
	if pairs == 0 {
		return engine.Pass("")
	}
	return engine.Pass(fmt.Sprintf("body:%s:%s:%d:%s", bc.Spec, bc.Var, pairs, bc.Text))
}

// zeroBlocks: the content makes a dynamic block produce no blocks at all
// (empty for_each collection, or a false condition selecting an empty one).
func zeroBlocks(in cty.Value) bool {
	if !in.IsKnown() || in.IsNull() {
		return false
	}
	if in.Type() == cty.Bool {
		return in.False()
	}
	if in.CanIterateElements() {
		return in.LengthInt() == 0
	}
	return false
}
